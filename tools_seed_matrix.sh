#!/bin/bash
# Re-runs every kept seeded change against the check that is recorded to catch it (meta.json caught_by).
# usage: tools_seed_matrix.sh [ids...]   -> one line per seed: CAUGHT / MISSED
cd /verif
ids="$@"; [ -z "$ids" ] && ids=$(ls seeded | grep '^C')
for id in $ids; do
  check=$(python3 -c "import json;m=json.load(open('seeded/$id/meta.json'));print(m['caught_by']['check'].split('/')[0])")
  tier=$(python3 -c "import json;m=json.load(open('seeded/$id/meta.json'));print(m['caught_by']['tier'])")
  if [ -n "$(git -C /repo status --porcelain --untracked-files=no)" ]; then echo "/repo is dirty, refusing"; exit 1; fi
  if ! git -C /repo apply --3way /verif/seeded/$id/patch.diff 2>/dev/null; then echo "$id APPLY-FAILED"; git -C /repo reset -q --hard HEAD; continue; fi
  res=MISSED
  for t in quick thorough; do
    out=$(NV_NO_SANITIZER=1 NV_NO_MIRI=1 ./check $check --tier $t 2>&1)
    if echo "$out" | grep -q "^VIOLATION property=$check"; then res="CAUGHT tier=$t sig=$(echo "$out" | grep -m1 'finding:' | sed 's/.*finding: \[\([^]]*\)\].*/\1/' | cut -c1-80)"; break; fi
    if echo "$out" | grep -q "BUILD-FAILED"; then res="BUILD-FAILED"; break; fi
    [ "$tier" = quick ] && [ "$t" = quick ] && [ -z "$SEED_MATRIX_DEEP" ] && break
  done
  git -C /repo reset -q --hard HEAD
  echo "$id check=$check expected_tier=$tier -> $res"
done

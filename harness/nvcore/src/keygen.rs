//! Key-geometry generators shared by all engines.

use crate::reftrie::{set_bit, Key};
use crate::rng::Rng;

/// A pool of keys with hostile geometry: clusters sharing long prefixes (with emphasis on the
/// 6-bit page boundaries), near-duplicate keys differing in the last bits, extreme keys.
#[derive(Clone, Debug, Default)]
pub struct KeyPool {
    pub keys: Vec<Key>,
    pub descr: Vec<String>,
}

/// A prefix length biased towards page boundaries (multiples of 6, +-1) and the extremes.
pub fn hostile_prefix_len(rng: &mut Rng) -> usize {
    match rng.below(10) {
        0..=4 => {
            let k = rng.range(0, 42) as usize * 6;
            let d = [-1i64, 0, 0, 1][rng.usize_below(4)];
            ((k as i64 + d).clamp(0, 255)) as usize
        }
        5 | 6 => rng.range(0, 255) as usize,
        7 => rng.range(240, 255) as usize,
        8 => rng.range(0, 13) as usize,
        _ => [5usize, 6, 7, 11, 12, 13, 59, 60, 61, 245, 246, 247, 251, 252, 253][rng.usize_below(15)],
    }
}

/// `n` distinct keys sharing exactly-at-least `prefix_len` bits with `base`.
pub fn cluster(rng: &mut Rng, base: &Key, prefix_len: usize, n: usize) -> Vec<Key> {
    let mut out = std::collections::BTreeSet::new();
    let free_bits = 256 - prefix_len;
    let max = if free_bits >= 20 { usize::MAX } else { 1usize << free_bits };
    let n = n.min(max);
    let mut tries = 0;
    while out.len() < n && tries < n * 20 + 64 {
        tries += 1;
        let mut k = rng.key();
        // copy prefix bits from base
        for i in 0..prefix_len {
            let b = (base[i / 8] >> (7 - (i % 8))) & 1 == 1;
            set_bit(&mut k, i, b);
        }
        // occasionally make the suffix tiny-varying (only last bits differ)
        if rng.chance(1, 4) && free_bits > 10 {
            let keep = 256 - rng.range(1, 10) as usize;
            for i in prefix_len..keep {
                let b = (base[i / 8] >> (7 - (i % 8))) & 1 == 1;
                set_bit(&mut k, i, b);
            }
        }
        out.insert(k);
    }
    out.into_iter().collect()
}

impl KeyPool {
    /// Build a pool of roughly `target` keys.
    pub fn generate(rng: &mut Rng, target: usize, profile: KeyProfile) -> Self {
        let mut set = std::collections::BTreeSet::new();
        let mut descr = Vec::new();
        let (uniform_share, n_clusters) = match profile {
            KeyProfile::Uniform => (100, 0),
            KeyProfile::Mixed => (50, 2 + rng.usize_below(4)),
            KeyProfile::Clustered => (15, 3 + rng.usize_below(6)),
        };
        let n_uniform = target * uniform_share / 100;
        for _ in 0..n_uniform {
            set.insert(rng.key());
        }
        if n_clusters > 0 {
            let per = ((target - n_uniform) / n_clusters).max(2);
            for _ in 0..n_clusters {
                let base = rng.key();
                let plen = hostile_prefix_len(rng);
                // sizes around the elision threshold (20) are interesting.
                let size = match rng.below(4) {
                    0 => rng.range(17, 24) as usize,
                    1 => rng.range(2, 6) as usize,
                    _ => per,
                };
                let c = cluster(rng, &base, plen, size.min(per.max(24)));
                descr.push(format!("cluster(prefix_bits={},n={})", plen, c.len()));
                set.extend(c);
            }
        }
        if rng.chance(1, 3) {
            set.insert([0u8; 32]);
            descr.push("zero-key".into());
        }
        if rng.chance(1, 3) {
            set.insert([0xffu8; 32]);
            descr.push("ones-key".into());
        }
        if rng.chance(1, 4) {
            // account-like counters hashed
            for i in 0..(target / 10).max(1) {
                let mut k = [0u8; 32];
                k[..8].copy_from_slice(&(i as u64).to_be_bytes());
                set.insert(crate::reftrie::B3::h_pub(&k));
            }
            descr.push("hashed-counters".into());
        }
        // boundary keys: for a few existing keys k and depths d, the smallest key of the sibling
        // sub-trie (prefix ++ 1 ++ 000..0), the largest key of the own sub-trie (prefix ++ 0 ++
        // 111..1) and their neighbours: exact range bounds of trie positions.
        if rng.chance(1, 2) && !set.is_empty() {
            let existing: Vec<Key> = set.iter().copied().collect();
            let n = 1 + rng.usize_below(6);
            for _ in 0..n {
                let k = *rng.pick(&existing);
                let d = hostile_prefix_len(rng).min(254);
                let mut lo = k;
                let mut hi = k;
                set_bit(&mut lo, d, true);
                set_bit(&mut hi, d, false);
                for i in d + 1..256 {
                    set_bit(&mut lo, i, false);
                    set_bit(&mut hi, i, true);
                }
                set.insert(lo);
                set.insert(hi);
            }
            descr.push(format!("boundary-keys(n={})", n * 2));
        }
        let mut keys: Vec<Key> = set.into_iter().collect();
        rng.shuffle(&mut keys);
        KeyPool { keys, descr }
    }

    pub fn pick(&self, rng: &mut Rng) -> Key {
        self.keys[rng.usize_below(self.keys.len())]
    }
}

#[derive(Clone, Copy, Debug, PartialEq, Eq)]
pub enum KeyProfile {
    Uniform,
    Mixed,
    Clustered,
}

/// A key that shares exactly `depth` leading bits with `k` and differs at bit `depth`.
pub fn diverge_at(rng: &mut Rng, k: &Key, depth: usize) -> Key {
    let mut out = rng.key();
    for i in 0..depth {
        let b = (k[i / 8] >> (7 - (i % 8))) & 1 == 1;
        set_bit(&mut out, i, b);
    }
    let b = (k[depth / 8] >> (7 - (depth % 8))) & 1 == 1;
    set_bit(&mut out, depth, !b);
    out
}

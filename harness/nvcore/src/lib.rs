pub mod keygen;
pub mod proofs;
pub mod reftrie;
pub mod report;
pub mod rng;

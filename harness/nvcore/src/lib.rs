pub mod keygen;
pub mod reftrie;
pub mod rng;

//! Reference binary Merkle-Patricia trie, written from the definition in `core/src/trie.rs`
//! (module docs) and hashing with the raw `blake3` / `sha2` crates. It shares no code with
//! `nomt_core::update::build_trie`, the page walker, or `nomt_core::hasher`.
//!
//!   empty set      -> 32 zero bytes (terminator)
//!   single pair    -> H(key ++ H(value)) with the MSB set
//!   otherwise      -> H(node(left) ++ node(right)) with the MSB cleared, where left/right are the
//!                     pairs whose key has bit `depth` 0 / 1 (either may be empty -> terminator)

use nomt_core::hasher::{NodeHasher, ValueHasher};
use nomt_core::proof::{PathProof, PathProofTerminal};
use nomt_core::trie::{InternalData, LeafData, NodeKind};
use nomt_core::trie_pos::TriePosition;

pub type Key = [u8; 32];
pub type Hash = [u8; 32];

/// A raw 256-bit hash function, plus the NOMT hasher type it must agree with.
pub trait HashKind: 'static + Send + Sync {
    type Nomt: NodeHasher + ValueHasher + 'static;
    const NAME: &'static str;
    fn h(data: &[u8]) -> Hash;
    fn h2(a: &Hash, b: &Hash) -> Hash {
        let mut buf = [0u8; 64];
        buf[..32].copy_from_slice(a);
        buf[32..].copy_from_slice(b);
        Self::h(&buf)
    }
}

pub struct B3;
impl B3 {
    pub fn h_pub(data: &[u8]) -> Hash {
        *blake3::hash(data).as_bytes()
    }
}
impl HashKind for B3 {
    type Nomt = nomt_core::hasher::Blake3Hasher;
    const NAME: &'static str = "blake3";
    fn h(data: &[u8]) -> Hash {
        *blake3::hash(data).as_bytes()
    }
}

pub struct S2;
impl HashKind for S2 {
    type Nomt = nomt_core::hasher::Sha2Hasher;
    const NAME: &'static str = "sha2";
    fn h(data: &[u8]) -> Hash {
        use sha2::Digest;
        let mut hasher = sha2::Sha256::new();
        hasher.update(data);
        hasher.finalize().into()
    }
}

/// A cheap non-cryptographic 256-bit mixer, used only where totality (not soundness) is checked
/// (Miri runs). It follows the same MSB labelling convention.
pub struct Toy;
pub struct ToyNomt;

fn toy_mix(data: &[u8]) -> Hash {
    let mut s = [
        0x243F6A8885A308D3u64,
        0x13198A2E03707344,
        0xA4093822299F31D0,
        0x082EFA98EC4E6C89,
    ];
    for (i, chunk) in data.chunks(8).enumerate() {
        let mut b = [0u8; 8];
        b[..chunk.len()].copy_from_slice(chunk);
        let v = u64::from_le_bytes(b) ^ (i as u64).wrapping_mul(0x9E3779B97F4A7C15);
        let j = i & 3;
        s[j] = (s[j] ^ v).wrapping_mul(0xFF51AFD7ED558CCD).rotate_left(23) ^ s[(j + 1) & 3];
    }
    s[0] ^= data.len() as u64;
    for r in 0..4 {
        let j = r & 3;
        s[j] = (s[j] ^ (s[j] >> 29)).wrapping_mul(0xC4CEB9FE1A85EC53) ^ s[(j + 3) & 3].rotate_left(31);
    }
    let mut out = [0u8; 32];
    for i in 0..4 {
        out[i * 8..i * 8 + 8].copy_from_slice(&s[i].to_le_bytes());
    }
    if out == [0u8; 32] {
        out[31] = 1;
    }
    out
}

impl HashKind for Toy {
    type Nomt = ToyNomt;
    const NAME: &'static str = "toy";
    fn h(data: &[u8]) -> Hash {
        toy_mix(data)
    }
}

impl ValueHasher for ToyNomt {
    fn hash_value(value: &[u8]) -> [u8; 32] {
        toy_mix(value)
    }
}

impl NodeHasher for ToyNomt {
    fn hash_leaf(data: &LeafData) -> [u8; 32] {
        let mut h = Toy::h2(&data.key_path, &data.value_hash);
        h[0] |= 0x80;
        h
    }
    fn hash_internal(data: &InternalData) -> [u8; 32] {
        let mut h = Toy::h2(&data.left, &data.right);
        h[0] &= 0x7f;
        if h == [0u8; 32] {
            h[31] = 1;
        }
        h
    }
    fn node_kind(node: &[u8; 32]) -> NodeKind {
        if node[0] >> 7 == 1 {
            NodeKind::Leaf
        } else if node == &[0u8; 32] {
            NodeKind::Terminator
        } else {
            NodeKind::Internal
        }
    }
}

pub const TERMINATOR: Hash = [0u8; 32];

pub fn leaf_node<K: HashKind>(key: &Key, value_hash: &Hash) -> Hash {
    let mut h = K::h2(key, value_hash);
    h[0] |= 0b1000_0000;
    h
}

pub fn internal_node<K: HashKind>(l: &Hash, r: &Hash) -> Hash {
    let mut h = K::h2(l, r);
    h[0] &= 0b0111_1111;
    h
}

#[inline]
pub fn bit(key: &Key, i: usize) -> bool {
    (key[i / 8] >> (7 - (i % 8))) & 1 == 1
}

pub fn set_bit(key: &mut Key, i: usize, v: bool) {
    let mask = 1u8 << (7 - (i % 8));
    if v {
        key[i / 8] |= mask;
    } else {
        key[i / 8] &= !mask;
    }
}

pub fn shared_prefix_len(a: &Key, b: &Key) -> usize {
    for i in 0..32 {
        let x = a[i] ^ b[i];
        if x != 0 {
            return i * 8 + x.leading_zeros() as usize;
        }
    }
    256
}

#[derive(Clone, Debug)]
pub enum RNode {
    Term,
    Leaf { key: Key, vh: Hash, hash: Hash },
    Int { l: u32, r: u32, hash: Hash },
}

/// The materialised reference trie over a sorted set of (key, value hash) pairs.
pub struct RefTrie {
    pub nodes: Vec<RNode>,
    pub root: u32,
    pub n_leaves: usize,
}

pub struct Lookup {
    /// depth at which the terminal node sits
    pub depth: usize,
    /// the terminal: leaf data if a leaf, None if terminator
    pub leaf: Option<(Key, Hash)>,
    /// sibling node hashes from depth 1 down to `depth`
    pub siblings: Vec<Hash>,
}

impl RefTrie {
    /// `items` must be sorted by key and free of duplicates.
    pub fn build<K: HashKind>(items: &[(Key, Hash)]) -> Self {
        debug_assert!(items.windows(2).all(|w| w[0].0 < w[1].0));
        let mut t = RefTrie {
            nodes: Vec::with_capacity(items.len() * 2 + 1),
            root: 0,
            n_leaves: items.len(),
        };
        t.nodes.push(RNode::Term); // index 0 is the shared terminator
        t.root = t.build_rec::<K>(items, 0);
        t
    }

    fn build_rec<K: HashKind>(&mut self, items: &[(Key, Hash)], depth: usize) -> u32 {
        match items.len() {
            0 => 0,
            1 => {
                let (key, vh) = items[0];
                let hash = leaf_node::<K>(&key, &vh);
                self.nodes.push(RNode::Leaf { key, vh, hash });
                (self.nodes.len() - 1) as u32
            }
            _ => {
                let split = items.partition_point(|(k, _)| !bit(k, depth));
                let l = self.build_rec::<K>(&items[..split], depth + 1);
                let r = self.build_rec::<K>(&items[split..], depth + 1);
                let hash = internal_node::<K>(&self.hash(l), &self.hash(r));
                self.nodes.push(RNode::Int { l, r, hash });
                (self.nodes.len() - 1) as u32
            }
        }
    }

    pub fn hash(&self, idx: u32) -> Hash {
        match &self.nodes[idx as usize] {
            RNode::Term => TERMINATOR,
            RNode::Leaf { hash, .. } | RNode::Int { hash, .. } => *hash,
        }
    }

    pub fn root_hash(&self) -> Hash {
        self.hash(self.root)
    }

    /// Walk towards `key`.
    pub fn lookup(&self, key: &Key) -> Lookup {
        let mut idx = self.root;
        let mut depth = 0;
        let mut siblings = Vec::new();
        loop {
            match &self.nodes[idx as usize] {
                RNode::Term => {
                    return Lookup {
                        depth,
                        leaf: None,
                        siblings,
                    }
                }
                RNode::Leaf { key, vh, .. } => {
                    return Lookup {
                        depth,
                        leaf: Some((*key, *vh)),
                        siblings,
                    }
                }
                RNode::Int { l, r, .. } => {
                    let (next, sib) = if bit(key, depth) { (*r, *l) } else { (*l, *r) };
                    siblings.push(self.hash(sib));
                    idx = next;
                    depth += 1;
                }
            }
        }
    }

    /// The node at an exact position (`depth` bits of `path`), if that position exists in the trie
    /// (i.e. all its proper ancestors are internal nodes). `None` otherwise.
    pub fn node_at(&self, path: &Key, depth: usize) -> Option<&RNode> {
        let mut idx = self.root;
        for d in 0..depth {
            match &self.nodes[idx as usize] {
                RNode::Int { l, r, .. } => idx = if bit(path, d) { *r } else { *l },
                _ => return None,
            }
        }
        Some(&self.nodes[idx as usize])
    }

    /// An honest path proof for `key`, built without touching NOMT's seeker.
    pub fn prove(&self, key: &Key) -> PathProof {
        let lk = self.lookup(key);
        let terminal = match lk.leaf {
            Some((k, vh)) => PathProofTerminal::Leaf(LeafData {
                key_path: k,
                value_hash: vh,
            }),
            None => PathProofTerminal::Terminator(position(key, lk.depth)),
        };
        PathProof {
            terminal,
            siblings: lk.siblings,
        }
    }

    /// All terminal positions (leaves and terminators that are children of internal nodes), in
    /// left-to-right order, as (representative key, depth, is_leaf).
    pub fn terminals(&self) -> Vec<(Key, usize, bool)> {
        let mut out = Vec::new();
        let mut path = [0u8; 32];
        self.terminals_rec(self.root, 0, &mut path, &mut out);
        out
    }

    fn terminals_rec(&self, idx: u32, depth: usize, path: &mut Key, out: &mut Vec<(Key, usize, bool)>) {
        match &self.nodes[idx as usize] {
            RNode::Term => out.push((*path, depth, false)),
            RNode::Leaf { key, .. } => out.push((*key, depth, true)),
            RNode::Int { l, r, .. } => {
                set_bit(path, depth, false);
                self.terminals_rec(*l, depth + 1, path, out);
                set_bit(path, depth, true);
                self.terminals_rec(*r, depth + 1, path, out);
                set_bit(path, depth, false);
            }
        }
    }
}

pub fn position(key: &Key, depth: usize) -> TriePosition {
    if depth == 0 {
        TriePosition::new()
    } else {
        TriePosition::from_path_and_depth(*key, depth as u16)
    }
}

/// Root of a sorted set of (key, value hash) pairs without materialising the trie.
pub fn root_of<K: HashKind>(items: &[(Key, Hash)]) -> Hash {
    fn rec<K: HashKind>(items: &[(Key, Hash)], depth: usize) -> Hash {
        match items.len() {
            0 => TERMINATOR,
            1 => leaf_node::<K>(&items[0].0, &items[0].1),
            _ => {
                let split = items.partition_point(|(k, _)| !bit(k, depth));
                let l = rec::<K>(&items[..split], depth + 1);
                let r = rec::<K>(&items[split..], depth + 1);
                internal_node::<K>(&l, &r)
            }
        }
    }
    rec::<K>(items, 0)
}

/// Apply sorted ops (key, Some(value hash) | None) to a sorted item list.
pub fn apply_ops(items: &[(Key, Hash)], ops: &[(Key, Option<Hash>)]) -> Vec<(Key, Hash)> {
    let mut out = Vec::with_capacity(items.len() + ops.len());
    let (mut i, mut j) = (0, 0);
    while i < items.len() || j < ops.len() {
        if j == ops.len() || (i < items.len() && items[i].0 < ops[j].0) {
            out.push(items[i]);
            i += 1;
        } else {
            if i < items.len() && items[i].0 == ops[j].0 {
                i += 1;
            }
            if let Some(vh) = ops[j].1 {
                out.push((ops[j].0, vh));
            }
            j += 1;
        }
    }
    out
}

#[cfg(test)]
mod tests {
    use super::*;

    // The reference must agree with NOMT's own hasher on single nodes (sanity of the HashKind
    // pairing, not an oracle).
    #[test]
    fn pairing() {
        let k = [7u8; 32];
        let vh = B3::h(b"x");
        assert_eq!(
            leaf_node::<B3>(&k, &vh),
            <B3 as HashKind>::Nomt::hash_leaf(&LeafData {
                key_path: k,
                value_hash: vh
            })
        );
        let vh = S2::h(b"x");
        assert_eq!(
            leaf_node::<S2>(&k, &vh),
            <S2 as HashKind>::Nomt::hash_leaf(&LeafData {
                key_path: k,
                value_hash: vh
            })
        );
    }
}

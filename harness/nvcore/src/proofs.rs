//! E-PROOF: pure (no database) monitors for the proof code in `nomt_core`.
//!
//!  * C07 - multi-proofs agree with the path proofs they aggregate (queries and updates),
//!  * C08 - no adversarial proof object makes a verifier confirm a false statement,
//!  * C18 - the verifiers are total: any input gets a verdict, never a panic.
//!
//! Honest proofs come from the reference trie's own prover; truth comes from the key set.

use crate::keygen::{cluster, diverge_at, hostile_prefix_len};
use crate::reftrie::{apply_ops, bit, position, root_of, set_bit, Hash, HashKind, Key, RefTrie};
use crate::report::{hex8, Rep};
use crate::rng::Rng;
use bitvec::prelude::*;
use nomt_core::proof::{
    verify_multi_proof, verify_multi_proof_update, verify_update, MultiPathProof, MultiProof, PathProof,
    PathProofTerminal, PathUpdate, VerifiedMultiProof, VerifiedPathProof,
};
use nomt_core::trie::LeafData;
use nomt_core::trie_pos::TriePosition;
use serde_json::json;
use std::collections::BTreeMap;
use std::panic::{catch_unwind, AssertUnwindSafe};

/// When set, tries, rounds and mutant counts are kept tiny (used for the Miri runs, which are
/// about four orders of magnitude slower than native execution).
pub static SMALL: std::sync::atomic::AtomicBool = std::sync::atomic::AtomicBool::new(false);

fn small() -> bool {
    SMALL.load(std::sync::atomic::Ordering::Relaxed)
}

fn guard<T>(f: impl FnOnce() -> T) -> Result<T, String> {
    catch_unwind(AssertUnwindSafe(f)).map_err(|e| {
        if let Some(s) = e.downcast_ref::<&str>() {
            s.to_string()
        } else if let Some(s) = e.downcast_ref::<String>() {
            s.clone()
        } else {
            "non-string panic".to_string()
        }
    })
}

fn msg_class(s: &str) -> String {
    let mut out = String::new();
    let mut last = false;
    for c in s.chars().take(90) {
        if c.is_ascii_digit() {
            if !last {
                out.push('#');
            }
            last = true;
        } else {
            last = false;
            out.push(c);
        }
    }
    out
}

/// A random trie: sorted (key, value hash) pairs with hostile geometry.
pub fn gen_items<K: HashKind>(rng: &mut Rng, max: usize) -> Vec<(Key, Hash)> {
    let max = if small() { max.min(6) } else { max };
    let n = match rng.below(10) {
        0 => 0,
        1 => 1,
        2 => 2,
        3..=5 => rng.range(3, 24.min(max) as u64) as usize,
        _ => rng.range(3, max as u64) as usize,
    };
    let mut set = std::collections::BTreeSet::new();
    while set.len() < n {
        match rng.below(4) {
            0 => {
                set.insert(rng.key());
            }
            _ => {
                let base = if set.is_empty() || rng.bool() {
                    rng.key()
                } else {
                    let v: Vec<&Key> = set.iter().collect();
                    **rng.pick(&v)
                };
                let plen = if small() { rng.range(0, 10) as usize } else { hostile_prefix_len(rng) };
                let m = rng.range(1, 12) as usize;
                for k in cluster(rng, &base, plen, m) {
                    if set.len() < n {
                        set.insert(k);
                    }
                }
            }
        }
    }
    set.into_iter()
        .enumerate()
        .map(|(i, k)| {
            let mut v = [0u8; 40];
            v[..8].copy_from_slice(&(i as u64).to_le_bytes());
            v[8..].copy_from_slice(&k);
            (k, K::h(&v))
        })
        .collect()
}

fn key_bits(k: &Key) -> &BitSlice<u8, Msb0> {
    k.view_bits::<Msb0>()
}

/// A key inside the scope of the terminal at (`path`, `depth`), different from `not` if possible.
fn key_in_scope(rng: &mut Rng, path: &Key, depth: usize) -> Key {
    let mut k = rng.key();
    for i in 0..depth {
        set_bit(&mut k, i, bit(path, i));
    }
    k
}

/// Ops (sorted, unique) in scope of the given terminals.
pub fn gen_ops<K: HashKind>(
    rng: &mut Rng,
    terminals: &[(Key, usize, bool)],
    items: &[(Key, Hash)],
) -> Vec<(Key, Option<Hash>)> {
    let mut ops: BTreeMap<Key, Option<Hash>> = BTreeMap::new();
    if terminals.is_empty() {
        return Vec::new();
    }
    let n_touch = match rng.below(4) {
        0 => 1,
        1 => terminals.len(),
        _ => rng.range(1, terminals.len() as u64) as usize,
    };
    let mut idx: Vec<usize> = (0..terminals.len()).collect();
    rng.shuffle(&mut idx);
    idx.truncate(n_touch);
    for i in idx {
        let (path, depth, is_leaf) = terminals[i];
        let newh = |rng: &mut Rng| {
            let mut b = [0u8; 16];
            rng.fill(&mut b);
            K::h(&b)
        };
        match rng.below(6) {
            0 if is_leaf => {
                ops.insert(path, None); // delete the leaf (collapses the sub-trie)
            }
            1 if is_leaf => {
                ops.insert(path, Some(newh(rng))); // overwrite
            }
            2 => {
                // several new keys under the terminal (splits a leaf / fills a terminator)
                for _ in 0..rng.range(1, 5) {
                    let k = key_in_scope(rng, &path, depth);
                    ops.insert(k, Some(newh(rng)));
                }
                if is_leaf && rng.bool() {
                    ops.insert(path, None);
                }
            }
            3 => {
                // deletes of absent keys (no-ops)
                for _ in 0..rng.range(1, 3) {
                    let k = key_in_scope(rng, &path, depth);
                    if items.binary_search_by(|x| x.0.cmp(&k)).is_err() {
                        ops.insert(k, None);
                    }
                }
            }
            4 if is_leaf && depth < 256 => {
                // a key diverging from the leaf very deep (long chain of internal nodes)
                let d = (rng.range(depth as u64, 255) as usize).min(255);
                let k = diverge_at(rng, &path, d);
                ops.insert(k, Some(newh(rng)));
            }
            _ => {
                let k = key_in_scope(rng, &path, depth);
                ops.insert(k, Some(newh(rng)));
            }
        }
    }
    ops.into_iter().collect()
}

fn terminal_of(pp: &PathProof) -> (Key, usize, bool) {
    match &pp.terminal {
        PathProofTerminal::Leaf(l) => (l.key_path, pp.siblings.len(), true),
        PathProofTerminal::Terminator(pos) => (pos.raw_path(), pp.siblings.len(), false),
    }
}

// ------------------------------------------------------------------------------------ C07

/// One C07 case: a trie, several (S, W) pairs.
pub fn run_c07<K: HashKind>(seed: u64, rep: &mut Rep) {
    let mut rng = Rng::new(seed);
    let items = gen_items::<K>(&mut rng, 400);
    let trie = RefTrie::build::<K>(&items);
    let root = trie.root_hash();
    let all_terms = trie.terminals();
    rep.sample(
        "C07",
        json!({"hasher": K::NAME, "seed": seed, "leaves": items.len(), "terminals": all_terms.len(), "root": hex8(&root)}),
    );
    let rounds = if small() { 1 } else if items.len() < 4 { 3 } else { 12 };
    for round in 0..rounds {
        rep.op_index = round as u64 + 1;
        // S: subset of terminals
        let mut idx: Vec<usize> = (0..all_terms.len()).collect();
        let size = match rng.below(8) {
            0 => 1,
            1 => 2.min(all_terms.len()),
            2 => all_terms.len(),
            3 => rng.range(1, all_terms.len() as u64) as usize,
            _ => rng.range(1, all_terms.len().min(120) as u64) as usize,
        };
        rng.shuffle(&mut idx);
        idx.truncate(size);
        idx.sort();
        let terms: Vec<(Key, usize, bool)> = idx.iter().map(|&i| all_terms[i]).collect();
        let proofs: Vec<PathProof> = terms.iter().map(|(k, _, _)| trie.prove(k)).collect();
        // individual verification
        let mut verified: Vec<VerifiedPathProof> = Vec::new();
        for (pp, (k, _, _)) in proofs.iter().zip(&terms) {
            match guard(|| pp.verify::<K::Nomt>(key_bits(k), root)) {
                Ok(Ok(v)) => verified.push(v),
                other => {
                    // an honest reference proof must verify: that is C05/C08 territory, but it
                    // makes this case meaningless.
                    rep.inconclusive.push(format!("reference proof rejected: {:?}", other.map(|r| r.map(|_| ()))));
                    return;
                }
            }
        }
        let ops = gen_ops::<K>(&mut rng, &terms, &items);
        let nontrivial = terms.len() >= 3 && !ops.is_empty();
        let ctx = format!("trie(n={}) S={} W={}", items.len(), terms.len(), ops.len());
        rep.eval("C07", nontrivial);
        let mp = match guard(|| MultiProof::from_path_proofs(proofs.clone())) {
            Ok(mp) => mp,
            Err(p) => {
                rep.fail("C07", &format!("from_path_proofs-panic:{}", msg_class(&p)), format!("{ctx}: {p}"));
                continue;
            }
        };
        let vmp = match guard(|| verify_multi_proof::<K::Nomt>(&mp, root)) {
            Ok(Ok(v)) => v,
            Ok(Err(e)) => {
                rep.fail("C07", "honest-multiproof-rejected", format!("{ctx}: verify_multi_proof = {e:?}"));
                continue;
            }
            Err(p) => {
                rep.fail("C07", &format!("verify-panic:{}", msg_class(&p)), format!("{ctx}: {p}"));
                continue;
            }
        };
        // queries
        for (ti, (path, depth, is_leaf)) in terms.iter().enumerate() {
            let mut qs: Vec<Key> = Vec::new();
            if *is_leaf {
                qs.push(*path);
            }
            for _ in 0..3 {
                qs.push(key_in_scope(&mut rng, path, *depth));
            }
            // keys just below / above the leaf key inside its scope
            if *is_leaf && *depth < 255 {
                let d = (rng.range(*depth as u64, 255) as usize).min(255);
                qs.push(diverge_at(&mut rng, path, d));
            }
            for q in qs {
                let vh = items
                    .binary_search_by(|x| x.0.cmp(&q))
                    .ok()
                    .map(|i| items[i].1)
                    .unwrap_or_else(|| K::h(b"bogus"));
                let leaf = LeafData {
                    key_path: q,
                    value_hash: vh,
                };
                let ind_v = verified[ti].confirm_value(&leaf).map_err(|_| ());
                let ind_n = verified[ti].confirm_nonexistence(&q).map_err(|_| ());
                let checks: [(&str, Result<bool, ()>, Result<Result<bool, ()>, String>); 4] = [
                    ("confirm_value", ind_v, guard(|| vmp.confirm_value(&leaf).map_err(|_| ()))),
                    ("confirm_nonexistence", ind_n, guard(|| vmp.confirm_nonexistence(&q).map_err(|_| ()))),
                    (
                        "confirm_value_with_index",
                        ind_v,
                        guard(|| vmp.confirm_value_with_index(&leaf, ti).map_err(|_| ())),
                    ),
                    (
                        "confirm_nonexistence_with_index",
                        ind_n,
                        guard(|| vmp.confirm_nonexistence_with_index(&q, ti).map_err(|_| ())),
                    ),
                ];
                for (name, want, got) in checks {
                    rep.eval("C07", nontrivial);
                    match got {
                        Ok(g) if g == want => {}
                        Ok(g) => rep.fail(
                            "C07",
                            &format!("query-disagrees:{name}"),
                            format!("{ctx}: key {} terminal#{ti}(depth {depth}, leaf={is_leaf}): multi-proof {name} = {g:?} but path proof says {want:?}", hex8(&q)),
                        ),
                        Err(p) => rep.fail("C07", &format!("query-panic:{name}"), format!("{ctx}: {p}")),
                    }
                }
                match guard(|| vmp.find_index_for(&q)) {
                    Ok(Ok(i)) if i == ti => {}
                    other => rep.fail(
                        "C07",
                        "find_index_for",
                        format!("{ctx}: find_index_for({}) = {:?}, expected Ok({ti})", hex8(&q), other),
                    ),
                }
            }
        }
        // a key covered by no selected terminal must be out of scope
        if terms.len() < all_terms.len() {
            for _ in 0..4 {
                let (p, d, _) = all_terms[rng.usize_below(all_terms.len())];
                if terms.iter().any(|t| t.0 == p && t.1 == d) {
                    continue;
                }
                let q = key_in_scope(&mut rng, &p, d);
                rep.eval("C07", nontrivial);
                if let Ok(r) = guard(|| vmp.confirm_nonexistence(&q)) {
                    if r.is_ok() {
                        rep.fail(
                            "C07",
                            "out-of-scope-answered",
                            format!("{ctx}: key {} is covered by no aggregated path, yet confirm_nonexistence = {r:?}", hex8(&q)),
                        );
                    }
                }
            }
        }
        // updates
        let truth = root_of::<K>(&apply_ops(&items, &ops));
        let mut updates: Vec<PathUpdate> = Vec::new();
        for (ti, (path, depth, _)) in terms.iter().enumerate() {
            let mine: Vec<(Key, Option<Hash>)> = ops
                .iter()
                .filter(|(k, _)| (0..*depth).all(|i| bit(k, i) == bit(path, i)))
                .cloned()
                .collect();
            if !mine.is_empty() {
                updates.push(PathUpdate {
                    inner: verified[ti].clone(),
                    ops: mine,
                });
            }
        }
        rep.eval("C07", nontrivial);
        let per_path = guard(|| verify_update::<K::Nomt>(root, &updates));
        let multi = guard(|| verify_multi_proof_update::<K::Nomt>(&vmp, ops.clone()));
        match (&per_path, &multi) {
            (Ok(Ok(a)), Ok(Ok(b))) => {
                if a != b {
                    rep.fail(
                        "C07",
                        "update-roots-differ",
                        format!("{ctx}: verify_multi_proof_update = {} but per-path verify_update = {} (truth {})", hex8(b), hex8(a), hex8(&truth)),
                    );
                } else if *a != truth {
                    rep.fail(
                        "C07",
                        "update-root-wrong",
                        format!("{ctx}: both update verifiers return {} but the updated set has root {}", hex8(a), hex8(&truth)),
                    );
                }
            }
            (a, b) => {
                let da = match a {
                    Ok(Ok(h)) => format!("Ok({})", hex8(h)),
                    Ok(Err(e)) => format!("Err({e:?})"),
                    Err(p) => format!("panic({})", msg_class(p)),
                };
                let db = match b {
                    Ok(Ok(h)) => format!("Ok({})", hex8(h)),
                    Ok(Err(e)) => format!("Err({e:?})"),
                    Err(p) => format!("panic({})", msg_class(p)),
                };
                rep.fail(
                    "C07",
                    "update-verifier-failed-on-honest-input",
                    format!("{ctx}: per-path {da}, multi {db}, truth {}", hex8(&truth)),
                );
            }
        }
        rep.feat("c07_triples", 1);
        rep.feat_max("max_paths_aggregated", terms.len() as u64);
    }
}

// ------------------------------------------------------------------------------------ C08

fn rand_hash(rng: &mut Rng) -> Hash {
    rng.key()
}

fn mutate_siblings(rng: &mut Rng, sib: &mut Vec<Hash>, donor: &[Hash]) -> &'static str {
    match rng.below(9) {
        0 if !sib.is_empty() => {
            let i = rng.usize_below(sib.len());
            let b = rng.usize_below(256);
            sib[i][b / 8] ^= 1 << (b % 8);
            "flip-sibling-bit"
        }
        1 if !sib.is_empty() => {
            let i = rng.usize_below(sib.len());
            sib[i] = if rng.bool() { [0u8; 32] } else { rand_hash(rng) };
            "replace-sibling"
        }
        2 if sib.len() >= 2 => {
            let i = rng.usize_below(sib.len());
            let j = rng.usize_below(sib.len());
            sib.swap(i, j);
            "swap-siblings"
        }
        3 if !sib.is_empty() => {
            if rng.bool() {
                sib.pop();
            } else {
                sib.remove(0);
            }
            "drop-sibling"
        }
        4 if !sib.is_empty() => {
            let i = rng.usize_below(sib.len());
            let s = sib[i];
            sib.insert(i, s);
            "duplicate-sibling"
        }
        5 => {
            let n = rng.range(1, 3);
            for _ in 0..n {
                sib.push(if rng.bool() { [0u8; 32] } else { rand_hash(rng) });
            }
            "extend-siblings"
        }
        6 if !donor.is_empty() => {
            *sib = donor.to_vec();
            "splice-siblings-from-other-proof"
        }
        7 if !sib.is_empty() => {
            let keep = rng.usize_below(sib.len());
            sib.truncate(keep);
            "truncate-siblings"
        }
        _ => {
            sib.insert(0, [0u8; 32]);
            "prepend-terminator-sibling"
        }
    }
}

fn mutate_terminal<K: HashKind>(
    rng: &mut Rng,
    t: &mut PathProofTerminal,
    depth: usize,
    items: &[(Key, Hash)],
) -> &'static str {
    let pick_item = |rng: &mut Rng| -> Option<(Key, Hash)> {
        if items.is_empty() {
            None
        } else {
            Some(items[rng.usize_below(items.len())])
        }
    };
    match rng.below(8) {
        0 => {
            if let PathProofTerminal::Leaf(l) = t {
                l.value_hash = rand_hash(rng);
                return "change-value-hash";
            }
            *t = PathProofTerminal::Leaf(LeafData {
                key_path: rng.key(),
                value_hash: rand_hash(rng),
            });
            "terminator-to-random-leaf"
        }
        1 => {
            if let PathProofTerminal::Leaf(l) = t {
                let b = rng.usize_below(256);
                l.key_path[b / 8] ^= 1 << (7 - b % 8);
                return "flip-leaf-key-bit";
            }
            "noop"
        }
        2 => {
            let k = match t {
                PathProofTerminal::Leaf(l) => l.key_path,
                PathProofTerminal::Terminator(p) => p.raw_path(),
            };
            *t = PathProofTerminal::Terminator(position(&k, depth.min(256)));
            "leaf-to-terminator"
        }
        3 => {
            if let Some((k, vh)) = pick_item(rng) {
                *t = PathProofTerminal::Leaf(LeafData {
                    key_path: k,
                    value_hash: vh,
                });
                return "terminal-to-other-existing-leaf";
            }
            "noop"
        }
        4 => {
            // terminator at another depth along the same path
            let k = match t {
                PathProofTerminal::Leaf(l) => l.key_path,
                PathProofTerminal::Terminator(p) => p.raw_path(),
            };
            let d = rng.range(0, 256) as usize;
            *t = PathProofTerminal::Terminator(position(&k, d));
            "terminator-other-depth"
        }
        5 => {
            // terminator at the position of an existing key (claims its sub-trie is empty)
            if let Some((k, _)) = pick_item(rng) {
                let d = rng.range(1, 256) as usize;
                *t = PathProofTerminal::Terminator(position(&k, d));
                return "terminator-over-existing-key";
            }
            "noop"
        }
        6 => {
            // a leaf with an existing key but claiming absence-relevant different key nearby
            if let Some((k, vh)) = pick_item(rng) {
                let d = rng.usize_below(256);
                let k2 = diverge_at(rng, &k, d);
                *t = PathProofTerminal::Leaf(LeafData {
                    key_path: k2,
                    value_hash: vh,
                });
                return "leaf-with-neighbour-key";
            }
            "noop"
        }
        _ => {
            *t = PathProofTerminal::Terminator(position(&rng.key(), rng.range(0, 256) as usize));
            "random-terminator"
        }
    }
}

/// Probe a verified path proof for statements and compare with the truth.
fn probe_verified_path<K: HashKind>(
    rep: &mut Rep,
    rng: &mut Rng,
    v: &VerifiedPathProof,
    items: &[(Key, Hash)],
    query: &Key,
    what: &str,
) {
    let lookup = |k: &Key| items.binary_search_by(|x| x.0.cmp(k)).ok().map(|i| items[i].1);
    let mut probes: Vec<Key> = vec![*query];
    // keys of the set inside the proven scope
    let plen = v.path().len();
    for (k, _) in items.iter() {
        if probes.len() > 24 {
            break;
        }
        if key_bits(k)[..plen] == *v.path() {
            probes.push(*k);
        }
    }
    for _ in 0..4 {
        let mut k = rng.key();
        for i in 0..plen {
            set_bit(&mut k, i, v.path()[i]);
        }
        probes.push(k);
    }
    if let Some(l) = v.terminal() {
        probes.push(l.key_path);
    }
    for q in probes {
        let truth = lookup(&q);
        // value statements: the true value hash, the terminal's value hash, a bogus one
        let mut hashes = vec![K::h(b"bogus")];
        if let Some(h) = truth {
            hashes.push(h);
        }
        if let Some(l) = v.terminal() {
            hashes.push(l.value_hash);
        }
        for h in hashes {
            let leaf = LeafData {
                key_path: q,
                value_hash: h,
            };
            if let Ok(Ok(true)) = guard(|| v.confirm_value(&leaf)) {
                if truth != Some(h) {
                    rep.fail(
                        "C08",
                        "false-value-confirmed",
                        format!("{what}: verified proof confirms value {} for key {} but the set has {:?}", hex8(&h), hex8(&q), truth.map(|t| hex8(&t))),
                    );
                }
            }
        }
        if let Ok(Ok(true)) = guard(|| v.confirm_nonexistence(&q)) {
            if truth.is_some() {
                rep.fail(
                    "C08",
                    "false-nonexistence-confirmed",
                    format!("{what}: verified proof confirms non-existence of key {} which is in the set", hex8(&q)),
                );
            }
        }
    }
}

fn probe_verified_multi<K: HashKind>(
    rep: &mut Rep,
    rng: &mut Rng,
    v: &VerifiedMultiProof,
    n_paths: usize,
    items: &[(Key, Hash)],
    extra: &[Key],
    what: &str,
) {
    let lookup = |k: &Key| items.binary_search_by(|x| x.0.cmp(k)).ok().map(|i| items[i].1);
    let mut probes: Vec<Key> = extra.to_vec();
    let step = (items.len() / 48).max(1);
    probes.extend(items.iter().step_by(step).map(|x| x.0));
    for _ in 0..8 {
        probes.push(rng.key());
    }
    for (k, _) in items.iter().take(8) {
        let d = rng.usize_below(256);
        probes.push(diverge_at(rng, k, d));
    }
    for q in probes {
        let truth = lookup(&q);
        let mut hashes = vec![K::h(b"bogus")];
        if let Some(h) = truth {
            hashes.push(h);
        }
        for h in hashes {
            let leaf = LeafData {
                key_path: q,
                value_hash: h,
            };
            let mut confirmed = matches!(guard(|| v.confirm_value(&leaf)), Ok(Ok(true)));
            for i in 0..n_paths.min(6) {
                confirmed |= matches!(guard(|| v.confirm_value_with_index(&leaf, i)), Ok(Ok(true)));
            }
            if confirmed && truth != Some(h) {
                rep.fail(
                    "C08",
                    "false-value-confirmed:multi",
                    format!("{what}: verified multi-proof confirms value {} for key {} but the set has {:?}", hex8(&h), hex8(&q), truth.map(|t| hex8(&t))),
                );
            }
        }
        let mut absent = matches!(guard(|| v.confirm_nonexistence(&q)), Ok(Ok(true)));
        for i in 0..n_paths.min(6) {
            absent |= matches!(guard(|| v.confirm_nonexistence_with_index(&q, i)), Ok(Ok(true)));
        }
        if absent && truth.is_some() {
            rep.fail(
                "C08",
                "false-nonexistence-confirmed:multi",
                format!("{what}: verified multi-proof confirms non-existence of key {} which is in the set", hex8(&q)),
            );
        }
    }
}

/// One C08 case: a trie and many adversarial proof objects against its root.
pub fn run_c08<K: HashKind>(seed: u64, rep: &mut Rep) {
    let mut rng = Rng::new(seed);
    let items = gen_items::<K>(&mut rng, 200);
    let trie = RefTrie::build::<K>(&items);
    let root = trie.root_hash();
    let all_terms = trie.terminals();
    // a second, unrelated trie for cross-splicing
    let items2 = gen_items::<K>(&mut rng, 60);
    let trie2 = RefTrie::build::<K>(&items2);
    rep.sample("C08", json!({"hasher": K::NAME, "seed": seed, "leaves": items.len(), "root": hex8(&root)}));
    let n_mut = if small() { 3 } else { 160 };
    let mut seen = std::collections::HashSet::new();
    for mi in 0..n_mut {
        rep.op_index = mi as u64 + 1;
        // ---------------- path proof mutants
        let base_key = if !items.is_empty() && rng.chance(2, 3) {
            let k = items[rng.usize_below(items.len())].0;
            if rng.bool() {
                k
            } else {
                let d = rng.usize_below(256);
                diverge_at(&mut rng, &k, d)
            }
        } else {
            rng.key()
        };
        let honest = trie.prove(&base_key);
        let mut m = honest.clone();
        let donor = if rng.bool() && !items.is_empty() {
            trie.prove(&items[rng.usize_below(items.len())].0).siblings
        } else {
            trie2.prove(&rng.key()).siblings
        };
        let mut ops_applied = Vec::new();
        for _ in 0..rng.range(1, 2) {
            let op = match rng.below(10) {
                0..=4 => mutate_siblings(&mut rng, &mut m.siblings, &donor),
                5..=8 => {
                    let depth = m.siblings.len();
                    mutate_terminal::<K>(&mut rng, &mut m.terminal, depth, &items)
                }
                _ => {
                    // internal-as-leaf splice: present an internal node's children as (key, value hash)
                    let lk = trie.lookup(&base_key);
                    if lk.depth >= 1 {
                        let d = rng.usize_below(lk.depth);
                        if let Some(crate::reftrie::RNode::Int { l, r, .. }) = trie.node_at(&base_key, d) {
                            m.terminal = PathProofTerminal::Leaf(LeafData {
                                key_path: trie.hash(*l),
                                value_hash: trie.hash(*r),
                            });
                            m.siblings.truncate(d);
                        }
                    }
                    "internal-node-as-leaf"
                }
            };
            ops_applied.push(op);
        }
        let differs = m.siblings != honest.siblings || m.terminal != honest.terminal;
        let fp = {
            let mut h = crate::rng::tag(&format!("{:?}", m.terminal));
            for s in &m.siblings {
                h = crate::rng::derive(h, &[u64::from_le_bytes(s[..8].try_into().unwrap())]);
            }
            h
        };
        let distinct = seen.insert(fp);
        // query keys: the base key, the mutated terminal's own key, a set key
        let mut queries = vec![base_key];
        if let PathProofTerminal::Leaf(l) = &m.terminal {
            queries.push(l.key_path);
        }
        if let PathProofTerminal::Terminator(p) = &m.terminal {
            queries.push(p.raw_path());
        }
        if !items.is_empty() {
            queries.push(items[rng.usize_below(items.len())].0);
        }
        for q in queries {
            rep.eval_keyed("C08", differs && distinct, crate::rng::derive(fp, &[u64::from_le_bytes(q[..8].try_into().unwrap())]));
            let what = format!("path-proof mutant [{}] for query {}", ops_applied.join("+"), hex8(&q));
            match guard(|| m.verify::<K::Nomt>(key_bits(&q), root)) {
                Ok(Ok(v)) => {
                    rep.feat("mutants_that_still_verify", 1);
                    probe_verified_path::<K>(rep, &mut rng, &v, &items, &q, &what);
                    // updates through it must give the true root or an error
                    let (p, d, is_leaf) = (
                        match v.terminal() {
                            Some(l) => l.key_path,
                            None => q,
                        },
                        v.path().len(),
                        v.terminal().is_some(),
                    );
                    let mut scope_key = q;
                    for i in 0..d {
                        set_bit(&mut scope_key, i, v.path()[i]);
                    }
                    let _ = p;
                    let ops = gen_ops::<K>(&mut rng, &[(scope_key, d, is_leaf && false)], &items);
                    if !ops.is_empty() {
                        let truth = root_of::<K>(&apply_ops(&items, &ops));
                        let upd = [PathUpdate {
                            inner: v.clone(),
                            ops: ops.clone(),
                        }];
                        if let Ok(Ok(r)) = guard(|| verify_update::<K::Nomt>(root, &upd)) {
                            if r != truth {
                                rep.fail(
                                    "C08",
                                    "false-update-root",
                                    format!("{what}: verify_update through it returns {} but the updated set has root {}", hex8(&r), hex8(&truth)),
                                );
                            }
                        }
                    }
                }
                Ok(Err(_)) => {
                    rep.feat("mutants_rejected", 1);
                }
                Err(_) => {
                    rep.feat("mutants_panicking_verifier", 1); // C18's business
                }
            }
        }

        // ---------------- multi-proof mutants
        if all_terms.is_empty() || mi % 2 == 1 {
            continue;
        }
        let mut idx: Vec<usize> = (0..all_terms.len()).collect();
        rng.shuffle(&mut idx);
        idx.truncate(rng.range(1, all_terms.len().min(12) as u64) as usize);
        idx.sort();
        let proofs: Vec<PathProof> = idx.iter().map(|&i| trie.prove(&all_terms[i].0)).collect();
        let Ok(honest_mp) = guard(|| MultiProof::from_path_proofs(proofs)) else { continue };
        let mut mp = honest_mp.clone();
        let mut mops = Vec::new();
        for _ in 0..rng.range(1, 2) {
            let op = match rng.below(14) {
                12 | 13 if mp.paths.iter().any(|p| matches!(p.terminal, PathProofTerminal::Terminator(_))) && !items.is_empty() => {
                    // re-target a terminator (its node hash stays zero) to the region of an
                    // existing key, keeping its depth: only the ordering / bisection logic of the
                    // verifier stands between this and a false non-existence statement.
                    let cands: Vec<usize> = (0..mp.paths.len())
                        .filter(|&i| matches!(mp.paths[i].terminal, PathProofTerminal::Terminator(_)))
                        .collect();
                    let i = *rng.pick(&cands);
                    let d = mp.paths[i].depth.clamp(1, 256);
                    let (k, _) = items[rng.usize_below(items.len())];
                    let old = match &mp.paths[i].terminal {
                        PathProofTerminal::Terminator(t) => t.raw_path(),
                        PathProofTerminal::Leaf(l) => l.key_path,
                    };
                    // keep a random-length suffix of the old position (the bits that are tied to
                    // sibling hashes), take the leading bits from the existing key
                    let keep_from = rng.usize_below(d);
                    let mut nk = k;
                    for b in keep_from..d {
                        set_bit(&mut nk, b, bit(&old, b));
                    }
                    mp.paths[i].terminal = PathProofTerminal::Terminator(position(&nk, d));
                    "retarget-terminator-to-existing-key"
                }
                0..=3 => mutate_siblings(&mut rng, &mut mp.siblings, &donor),
                4 if !mp.paths.is_empty() => {
                    let i = rng.usize_below(mp.paths.len());
                    if rng.bool() {
                        mp.paths[i].depth += 1;
                    } else {
                        mp.paths[i].depth = mp.paths[i].depth.saturating_sub(1);
                    }
                    "depth+-1"
                }
                5 if mp.paths.len() >= 2 => {
                    let i = rng.usize_below(mp.paths.len());
                    let j = rng.usize_below(mp.paths.len());
                    mp.paths.swap(i, j);
                    "swap-paths"
                }
                6 if !mp.paths.is_empty() => {
                    let i = rng.usize_below(mp.paths.len());
                    let d = mp.paths[i].depth;
                    mutate_terminal::<K>(&mut rng, &mut mp.paths[i].terminal, d, &items)
                }
                7 if !mp.paths.is_empty() => {
                    let i = rng.usize_below(mp.paths.len());
                    mp.paths.remove(i);
                    "drop-path"
                }
                8 if !mp.paths.is_empty() => {
                    let i = rng.usize_below(mp.paths.len());
                    let p = mp.paths[i].clone();
                    mp.paths.insert(i, p);
                    "duplicate-path"
                }
                9 if !mp.paths.is_empty() => {
                    // re-label a terminal with a *longer* position whose trailing bits are the
                    // original ones (only the trailing bits are tied to the sibling hashes)
                    let i = if rng.bool() { mp.paths.len() - 1 } else { rng.usize_below(mp.paths.len()) };
                    let extra = rng.range(1, 12) as usize;
                    let old = match &mp.paths[i].terminal {
                        PathProofTerminal::Leaf(l) => l.key_path,
                        PathProofTerminal::Terminator(p) => p.raw_path(),
                    };
                    let d = mp.paths[i].depth;
                    if d + extra <= 256 {
                        let target = if !items.is_empty() { items[rng.usize_below(items.len())].0 } else { rng.key() };
                        let mut k = target;
                        // k = target[..extra] ++ old[..d]
                        for b in 0..d {
                            set_bit(&mut k, extra + b, bit(&old, b));
                        }
                        mp.paths[i].terminal = PathProofTerminal::Terminator(position(&k, d + extra));
                        mp.paths[i].depth = d + extra;
                    }
                    "relabel-terminal-deeper"
                }
                10 if !mp.paths.is_empty() => {
                    // claim an existing key's region is empty at an inner path index
                    let i = rng.usize_below(mp.paths.len());
                    if !items.is_empty() {
                        let (k, _) = items[rng.usize_below(items.len())];
                        let d = rng.range(1, 16) as usize;
                        mp.paths[i].terminal = PathProofTerminal::Terminator(position(&k, d));
                        if rng.bool() {
                            mp.paths[i].depth = d;
                        }
                    }
                    "inner-terminator-over-existing-key"
                }
                _ => {
                    // move a sibling across the bisection boundary
                    if mp.siblings.len() >= 2 {
                        let i = rng.usize_below(mp.siblings.len());
                        let s = mp.siblings.remove(i);
                        let j = rng.usize_below(mp.siblings.len() + 1);
                        mp.siblings.insert(j, s);
                    }
                    "move-sibling"
                }
            };
            mops.push(op);
        }
        let differs = mp != honest_mp;
        let fp = crate::rng::tag(&format!("{:?}", mp));
        rep.eval_keyed("C08", differs && seen.insert(fp), fp);
        let what = format!("multi-proof mutant [{}] ({} paths)", mops.join("+"), mp.paths.len());
        match guard(|| verify_multi_proof::<K::Nomt>(&mp, root)) {
            Ok(Ok(v)) => {
                rep.feat("multi_mutants_that_still_verify", 1);
                let extra: Vec<Key> = mp
                    .paths
                    .iter()
                    .map(|p| match &p.terminal {
                        PathProofTerminal::Leaf(l) => l.key_path,
                        PathProofTerminal::Terminator(t) => t.raw_path(),
                    })
                    .collect();
                probe_verified_multi::<K>(rep, &mut rng, &v, mp.paths.len(), &items, &extra, &what);
                // updates: ops under the claimed terminals
                let terms: Vec<(Key, usize, bool)> = mp
                    .paths
                    .iter()
                    .map(|p| match &p.terminal {
                        PathProofTerminal::Leaf(l) => (l.key_path, p.depth.min(256), false),
                        PathProofTerminal::Terminator(t) => (t.raw_path(), p.depth.min(256), false),
                    })
                    .collect();
                let ops = gen_ops::<K>(&mut rng, &terms, &items);
                if !ops.is_empty() {
                    let truth = root_of::<K>(&apply_ops(&items, &ops));
                    if let Ok(Ok(r)) = guard(|| verify_multi_proof_update::<K::Nomt>(&v, ops.clone())) {
                        if r != truth {
                            rep.fail(
                                "C08",
                                "false-update-root:multi",
                                format!("{what}: verify_multi_proof_update returns {} but the updated set has root {}", hex8(&r), hex8(&truth)),
                            );
                        }
                    }
                }
            }
            Ok(Err(_)) => rep.feat("multi_mutants_rejected", 1),
            Err(_) => rep.feat("mutants_panicking_verifier", 1),
        }
    }
}

// ------------------------------------------------------------------------------------ C18

fn random_terminal(rng: &mut Rng, items: &[(Key, Hash)]) -> PathProofTerminal {
    match rng.below(4) {
        0 => PathProofTerminal::Terminator(TriePosition::new()),
        1 => PathProofTerminal::Terminator(position(&rng.key(), rng.range(0, 256) as usize)),
        2 if !items.is_empty() => {
            let (k, vh) = items[rng.usize_below(items.len())];
            PathProofTerminal::Leaf(LeafData {
                key_path: k,
                value_hash: vh,
            })
        }
        _ => PathProofTerminal::Leaf(LeafData {
            key_path: rng.key(),
            value_hash: rng.key(),
        }),
    }
}

fn random_siblings(rng: &mut Rng, n: usize) -> Vec<Hash> {
    (0..n)
        .map(|_| match rng.below(4) {
            0 => [0u8; 32],
            1 => {
                let mut h = rng.key();
                h[0] |= 0x80;
                h
            }
            _ => {
                let mut h = rng.key();
                h[0] &= 0x7f;
                h
            }
        })
        .collect()
}

fn weird_len(rng: &mut Rng) -> usize {
    match rng.below(8) {
        0 => 0,
        1 => 1,
        2 => 255,
        3 => 256,
        4 => 257,
        5 => rng.range(258, 300) as usize,
        _ => rng.range(0, 40) as usize,
    }
}

fn random_ops(rng: &mut Rng, items: &[(Key, Hash)], sorted: bool) -> Vec<(Key, Option<Hash>)> {
    let n = match rng.below(5) {
        0 => 0,
        1 => 1,
        _ => rng.range(1, 12) as usize,
    };
    let mut ops: Vec<(Key, Option<Hash>)> = (0..n)
        .map(|_| {
            let k = if !items.is_empty() && rng.bool() {
                let k = items[rng.usize_below(items.len())].0;
                if rng.bool() {
                    k
                } else {
                    let d = rng.usize_below(256);
                    diverge_at(rng, &k, d)
                }
            } else {
                rng.key()
            };
            (k, if rng.chance(1, 3) { None } else { Some(rng.key()) })
        })
        .collect();
    if sorted {
        ops.sort_by(|a, b| a.0.cmp(&b.0));
        ops.dedup_by(|a, b| a.0 == b.0);
    } else if rng.bool() && ops.len() >= 2 {
        // duplicates
        let d = ops[0];
        ops.push(d);
    }
    ops
}

/// One C18 case. `budget` bounds the number of objects (Miri runs use a small one).
pub fn run_c18<K: HashKind>(seed: u64, rep: &mut Rep, budget: usize) {
    let mut rng = Rng::new(seed);
    let items = gen_items::<K>(&mut rng, 120);
    let trie = RefTrie::build::<K>(&items);
    let root = trie.root_hash();
    let all_terms = trie.terminals();
    rep.sample("C18", json!({"hasher": K::NAME, "seed": seed, "leaves": items.len(), "objects": budget}));
    let mut seen = std::collections::HashSet::new();
    for oi in 0..budget {
        rep.op_index = oi as u64 + 1;
        let kind = rng.below(10);
        // ----- path proofs
        if kind < 4 {
            let pp = if kind < 2 || items.is_empty() {
                let n = weird_len(&mut rng);
                PathProof {
                    terminal: random_terminal(&mut rng, &items),
                    siblings: random_siblings(&mut rng, n),
                }
            } else {
                let k = items[rng.usize_below(items.len())].0;
                let mut pp = trie.prove(&k);
                if rng.bool() {
                    mutate_siblings(&mut rng, &mut pp.siblings, &[]);
                } else {
                    let d = pp.siblings.len();
                    mutate_terminal::<K>(&mut rng, &mut pp.terminal, d, &items);
                }
                pp
            };
            let q = match rng.below(3) {
                0 => rng.key(),
                _ => match &pp.terminal {
                    PathProofTerminal::Leaf(l) => l.key_path,
                    PathProofTerminal::Terminator(p) => p.raw_path(),
                },
            };
            // key path slices of odd lengths are part of the input space too
            let qbits_full = key_bits(&q);
            let qlen = match rng.below(6) {
                0 => rng.usize_below(257),
                1 => pp.siblings.len().min(256),
                _ => 256,
            };
            let qbits = &qbits_full[..qlen];
            let what = format!(
                "PathProof{{terminal:{},siblings:{}}}.verify(key[..{qlen}])",
                match &pp.terminal {
                    PathProofTerminal::Leaf(_) => "Leaf".to_string(),
                    PathProofTerminal::Terminator(p) => format!("Terminator(depth {})", p.depth()),
                },
                pp.siblings.len()
            );
            let fp = crate::rng::tag(&format!("{:?}{}", pp, qlen));
            rep.eval_keyed("C18", seen.insert(fp) && pp.siblings.len() <= qlen.min(256), fp);
            // root: the real root, or whatever the object hashes to (so that deeper code runs)
            let target_root = if rng.bool() {
                root
            } else {
                // the hash this object folds to, so that verification succeeds and the code
                // behind it (confirm_*, verify_update) runs on a hostile but "verified" object
                let n = pp.siblings.len().min(qlen);
                let mut node = match &pp.terminal {
                    PathProofTerminal::Leaf(l) => crate::reftrie::leaf_node::<K>(&l.key_path, &l.value_hash),
                    PathProofTerminal::Terminator(_) => [0u8; 32],
                };
                for i in (0..n).rev() {
                    let s = pp.siblings[i];
                    node = if qbits[i] {
                        crate::reftrie::internal_node::<K>(&s, &node)
                    } else {
                        crate::reftrie::internal_node::<K>(&node, &s)
                    };
                }
                node
            };
            match guard(|| pp.verify::<K::Nomt>(qbits, target_root)) {
                Err(p) => rep.fail("C18", &format!("panic:PathProof::verify:{}", msg_class(&p)), format!("{what}: {p}")),
                Ok(Err(_)) => rep.feat("rejected", 1),
                Ok(Ok(v)) => {
                    rep.feat("verified_then_abused", 1);
                    for _ in 0..3 {
                        let k = rng.key();
                        let leaf = LeafData {
                            key_path: k,
                            value_hash: rng.key(),
                        };
                        if let Err(p) = guard(|| v.confirm_value(&leaf)) {
                            rep.fail("C18", &format!("panic:confirm_value:{}", msg_class(&p)), format!("{what}: {p}"));
                        }
                        if let Err(p) = guard(|| v.confirm_nonexistence(&k)) {
                            rep.fail("C18", &format!("panic:confirm_nonexistence:{}", msg_class(&p)), format!("{what}: {p}"));
                        }
                    }
                    // an in-scope write whose key equals the terminal leaf's key everywhere below
                    // the path: if the (verified, hostile) leaf does not lie below its own path
                    // the spliced sub-trie would hold two keys that differ only above the path
                    if let Some(leaf) = v.terminal() {
                        let mut k = leaf.key_path;
                        for (i, b) in v.path().iter().by_vals().enumerate() {
                            if b {
                                k[i / 8] |= 1 << (7 - i % 8);
                            } else {
                                k[i / 8] &= !(1 << (7 - i % 8));
                            }
                        }
                        rep.feat("updates_aliasing_the_terminal_leaf", (k != leaf.key_path) as u64);
                        let ups = vec![PathUpdate {
                            inner: v.clone(),
                            ops: vec![(k, Some(rng.key()))],
                        }];
                        if let Err(p) = guard(|| verify_update::<K::Nomt>(target_root, &ups)) {
                            rep.fail("C18", &format!("panic:verify_update:{}", msg_class(&p)), format!("{what} then update of a key aliasing the terminal leaf below the path: {p}"));
                        }
                    }
                    // hostile updates through a genuinely verified path
                    for _ in 0..3 {
                        let mut ups = vec![PathUpdate {
                            inner: v.clone(),
                            ops: {
                                let sorted = rng.chance(1, 2);
                                random_ops(&mut rng, &items, sorted)
                            },
                        }];
                        if rng.chance(1, 3) {
                            // the same path twice / with a second unrelated verified path
                            ups.push(PathUpdate {
                                inner: v.clone(),
                                ops: random_ops(&mut rng, &items, true),
                            });
                        }
                        let r = if rng.bool() { target_root } else { rng.key() };
                        if let Err(p) = guard(|| verify_update::<K::Nomt>(r, &ups)) {
                            rep.fail("C18", &format!("panic:verify_update:{}", msg_class(&p)), format!("{what} then update with {} op lists: {p}", ups.len()));
                        }
                    }
                }
            }
            continue;
        }
        // ----- multi-proofs
        let mp = if kind < 6 || all_terms.is_empty() {
            // random object
            let n_paths = match rng.below(5) {
                0 => 0,
                1 => 1,
                _ => rng.range(1, 6) as usize,
            };
            let mut paths: Vec<MultiPathProof> = (0..n_paths)
                .map(|_| MultiPathProof {
                    terminal: random_terminal(&mut rng, &items),
                    depth: weird_len(&mut rng),
                })
                .collect();
            if rng.chance(3, 4) {
                paths.sort_by(|a, b| a.terminal.path().cmp(b.terminal.path()));
            }
            if rng.chance(1, 4) && !paths.is_empty() {
                // prefix-related / equal paths
                let p = paths[0].clone();
                paths.push(p);
            }
            let ns = weird_len(&mut rng);
            MultiProof {
                paths,
                siblings: random_siblings(&mut rng, ns),
            }
        } else {
            // mutated honest multi-proof
            let mut idx: Vec<usize> = (0..all_terms.len()).collect();
            rng.shuffle(&mut idx);
            idx.truncate(rng.range(1, all_terms.len().min(8) as u64) as usize);
            idx.sort();
            let proofs: Vec<PathProof> = idx.iter().map(|&i| trie.prove(&all_terms[i].0)).collect();
            let mut mp = match guard(|| MultiProof::from_path_proofs(proofs)) {
                Ok(mp) => mp,
                Err(p) => {
                    rep.fail("C18", &format!("panic:from_path_proofs:{}", msg_class(&p)), p);
                    continue;
                }
            };
            match rng.below(6) {
                0 => {
                    mutate_siblings(&mut rng, &mut mp.siblings, &[]);
                }
                1 if !mp.paths.is_empty() => {
                    let i = rng.usize_below(mp.paths.len());
                    mp.paths[i].depth = weird_len(&mut rng);
                }
                2 if !mp.paths.is_empty() => {
                    let i = rng.usize_below(mp.paths.len());
                    let d = mp.paths[i].depth;
                    mutate_terminal::<K>(&mut rng, &mut mp.paths[i].terminal, d, &items);
                }
                3 if !mp.paths.is_empty() => {
                    let i = rng.usize_below(mp.paths.len());
                    mp.paths[i].depth += 1;
                }
                4 => {
                    mp.siblings.clear();
                }
                _ => {} // honest object, abused later
            }
            mp
        };
        let fp = crate::rng::tag(&format!("{:?}", mp));
        // non-trivial: passes the verifier's first check (paths strictly ascending)
        let ascending = mp.paths.windows(2).all(|w| w[0].terminal.path() < w[1].terminal.path());
        rep.eval_keyed("C18", seen.insert(fp) && ascending, fp);
        let what = format!(
            "MultiProof{{paths:[{}],siblings:{}}}",
            mp.paths
                .iter()
                .map(|p| format!(
                    "{}@{}",
                    match &p.terminal {
                        PathProofTerminal::Leaf(_) => "L".to_string(),
                        PathProofTerminal::Terminator(t) => format!("T{}", t.depth()),
                    },
                    p.depth
                ))
                .collect::<Vec<_>>()
                .join(","),
            mp.siblings.len()
        );
        let r = if rng.chance(2, 3) { root } else { [0u8; 32] };
        match guard(|| verify_multi_proof::<K::Nomt>(&mp, r)) {
            Err(p) => rep.fail("C18", &format!("panic:verify_multi_proof:{}", msg_class(&p)), format!("{what}: {p}")),
            Ok(Err(_)) => rep.feat("rejected", 1),
            Ok(Ok(v)) => {
                rep.feat("verified_then_abused", 1);
                let n = mp.paths.len().max(1);
                for _ in 0..4 {
                    let k = if !items.is_empty() && rng.bool() { items[rng.usize_below(items.len())].0 } else { rng.key() };
                    let leaf = LeafData {
                        key_path: k,
                        value_hash: rng.key(),
                    };
                    let i = rng.usize_below(n); // in-range indices only (documented precondition)
                    for (name, res) in [
                        ("confirm_value", guard(|| v.confirm_value(&leaf).is_ok())),
                        ("confirm_nonexistence", guard(|| v.confirm_nonexistence(&k).is_ok())),
                        ("confirm_value_with_index", guard(|| v.confirm_value_with_index(&leaf, i).is_ok())),
                        ("confirm_nonexistence_with_index", guard(|| v.confirm_nonexistence_with_index(&k, i).is_ok())),
                        ("find_index_for", guard(|| v.find_index_for(&k).is_ok())),
                    ] {
                        if let Err(p) = res {
                            rep.fail("C18", &format!("panic:{name}:{}", msg_class(&p)), format!("{what}: {p}"));
                        }
                    }
                }
                for _ in 0..4 {
                    let sorted = rng.chance(2, 3);
                    let ops = random_ops(&mut rng, &items, sorted);
                    if let Err(p) = guard(|| verify_multi_proof_update::<K::Nomt>(&v, ops.clone())) {
                        rep.fail(
                            "C18",
                            &format!("panic:verify_multi_proof_update:{}", msg_class(&p)),
                            format!("{what} verified, then update with {} ops: {p}", ops.len()),
                        );
                    }
                }
            }
        }
    }
}

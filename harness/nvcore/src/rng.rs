//! Small deterministic PRNG (xoshiro256** seeded through splitmix64) with stream derivation.

#[derive(Clone, Debug)]
pub struct Rng {
    s: [u64; 4],
}

fn splitmix(x: &mut u64) -> u64 {
    *x = x.wrapping_add(0x9E3779B97F4A7C15);
    let mut z = *x;
    z = (z ^ (z >> 30)).wrapping_mul(0xBF58476D1CE4E5B9);
    z = (z ^ (z >> 27)).wrapping_mul(0x94D049BB133111EB);
    z ^ (z >> 31)
}

/// Derive a child seed from a parent seed and a list of tags (engine, shard, case ...).
pub fn derive(seed: u64, tags: &[u64]) -> u64 {
    let mut x = seed ^ 0xA076_1D64_78BD_642F;
    let mut out = splitmix(&mut x);
    for t in tags {
        x ^= t.wrapping_mul(0xE703_7ED1_A0B4_28DB);
        out ^= splitmix(&mut x).rotate_left(17);
        x = x.wrapping_add(out);
    }
    splitmix(&mut x) ^ out
}

pub fn tag(s: &str) -> u64 {
    // FNV-1a
    let mut h = 0xcbf29ce484222325u64;
    for b in s.bytes() {
        h ^= b as u64;
        h = h.wrapping_mul(0x100000001b3);
    }
    h
}

impl Rng {
    pub fn new(seed: u64) -> Self {
        let mut x = seed;
        let s = [
            splitmix(&mut x),
            splitmix(&mut x),
            splitmix(&mut x),
            splitmix(&mut x),
        ];
        Rng { s }
    }

    pub fn next_u64(&mut self) -> u64 {
        let r = self.s[1].wrapping_mul(5).rotate_left(7).wrapping_mul(9);
        let t = self.s[1] << 17;
        self.s[2] ^= self.s[0];
        self.s[3] ^= self.s[1];
        self.s[1] ^= self.s[2];
        self.s[0] ^= self.s[3];
        self.s[2] ^= t;
        self.s[3] = self.s[3].rotate_left(45);
        r
    }

    /// Uniform in 0..n (n > 0).
    pub fn below(&mut self, n: u64) -> u64 {
        debug_assert!(n > 0);
        // multiply-shift; bias is negligible for our n.
        ((self.next_u64() as u128 * n as u128) >> 64) as u64
    }

    pub fn usize_below(&mut self, n: usize) -> usize {
        self.below(n as u64) as usize
    }

    /// Uniform in lo..=hi.
    pub fn range(&mut self, lo: u64, hi: u64) -> u64 {
        if hi <= lo {
            return lo;
        }
        lo + self.below(hi - lo + 1)
    }

    pub fn chance(&mut self, num: u64, den: u64) -> bool {
        self.below(den) < num
    }

    pub fn bool(&mut self) -> bool {
        self.next_u64() & 1 == 1
    }

    pub fn fill(&mut self, buf: &mut [u8]) {
        for chunk in buf.chunks_mut(8) {
            let v = self.next_u64().to_le_bytes();
            chunk.copy_from_slice(&v[..chunk.len()]);
        }
    }

    pub fn key(&mut self) -> [u8; 32] {
        let mut k = [0u8; 32];
        self.fill(&mut k);
        k
    }

    pub fn pick<'a, T>(&mut self, xs: &'a [T]) -> &'a T {
        &xs[self.usize_below(xs.len())]
    }

    pub fn shuffle<T>(&mut self, xs: &mut [T]) {
        for i in (1..xs.len()).rev() {
            let j = self.usize_below(i + 1);
            xs.swap(i, j);
        }
    }

    /// Pick an index according to integer weights.
    pub fn weighted(&mut self, weights: &[u32]) -> usize {
        let total: u64 = weights.iter().map(|w| *w as u64).sum();
        let mut x = self.below(total.max(1));
        for (i, w) in weights.iter().enumerate() {
            if x < *w as u64 {
                return i;
            }
            x -= *w as u64;
        }
        weights.len() - 1
    }

    pub fn fork(&mut self) -> Rng {
        Rng::new(self.next_u64())
    }
}

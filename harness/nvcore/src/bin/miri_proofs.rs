//! Small driver for running the proof monitors under Miri (or natively):
//!   miri_proofs <seed> <first_case> <n_cases> <objects_per_case>
//! Prints one JSON line with the merged report. Undefined behaviour makes Miri abort the process.
use nvcore::proofs::{run_c07, run_c08, run_c18};
use nvcore::reftrie::Toy;
use nvcore::report::Rep;
use nvcore::rng::derive;

fn main() {
    let a: Vec<String> = std::env::args().collect();
    let seed: u64 = a.get(1).and_then(|s| s.parse().ok()).unwrap_or(1);
    let first: u64 = a.get(2).and_then(|s| s.parse().ok()).unwrap_or(0);
    let n: u64 = a.get(3).and_then(|s| s.parse().ok()).unwrap_or(1);
    let budget: usize = a.get(4).and_then(|s| s.parse().ok()).unwrap_or(8);
    nvcore::proofs::SMALL.store(true, std::sync::atomic::Ordering::Relaxed);
    let mut total = Rep::new(seed);
    for i in first..first + n {
        let s = derive(seed, &[0x4d495249, i]);
        let mut rep = Rep::new(s);
        run_c18::<Toy>(s, &mut rep, budget);
        if i % 4 == 0 {
            run_c07::<Toy>(derive(s, &[7]), &mut rep);
        }
        if i % 4 == 1 {
            run_c08::<Toy>(derive(s, &[8]), &mut rep);
        }
        total.merge(rep);
    }
    println!("{}", total.to_json());
}

//! Per-case report: oracle evaluation counts, non-trivial case hashes, findings, trace.

use serde_json::{json, Value};
use std::collections::{BTreeMap, BTreeSet};

#[derive(Clone, Debug)]
pub struct Finding {
    pub prop: String,
    /// stable signature: call site / message class, used to match known findings
    pub sig: String,
    pub detail: String,
    pub case_seed: u64,
    pub op_index: u64,
}

#[derive(Default)]
pub struct Rep {
    pub case_seed: u64,
    pub op_index: u64,
    pub evals: BTreeMap<String, u64>,
    pub nontrivial: BTreeMap<String, BTreeSet<u64>>,
    pub findings: Vec<Finding>,
    pub inconclusive: Vec<String>,
    pub trace: Vec<String>,
    pub features: BTreeMap<String, u64>,
    pub samples: BTreeMap<String, Vec<Value>>,
    /// set by the first finding: later comparisons in the same case would only cascade
    pub diverged: bool,
    /// prepended to the signature of every later finding (marks cases in which a known-defect
    /// precondition was deliberately produced)
    pub sig_prefix: String,
    ord: u64,
}

impl Rep {
    pub fn new(case_seed: u64) -> Self {
        Rep {
            case_seed,
            ..Default::default()
        }
    }

    /// A scratch report for a nested oracle call; findings are re-attributed by the caller.
    pub fn sub(&self) -> Rep {
        let mut r = Rep::new(self.case_seed);
        r.op_index = self.op_index;
        r.sig_prefix = self.sig_prefix.clone();
        r
    }

    /// Record one oracle evaluation for `prop`.
    pub fn eval(&mut self, prop: &str, nontrivial: bool) {
        *self.evals.entry(prop.to_string()).or_default() += 1;
        self.ord += 1;
        if nontrivial {
            let h = crate::rng::derive(self.case_seed, &[self.op_index, self.ord, crate::rng::tag(prop)]);
            self.insert_fingerprint(prop, h);
        }
    }

    /// Fingerprints of non-trivial evaluations are kept to count distinct ones. The sets are
    /// bounded (per case and in total): beyond the bound evaluations are only counted, so the
    /// reported number of distinct non-trivial evaluations is a lower bound.
    fn insert_fingerprint(&mut self, prop: &str, h: u64) {
        const PER_CASE_CAP: usize = 4096;
        let set = self.nontrivial.entry(prop.to_string()).or_default();
        if set.len() < PER_CASE_CAP {
            set.insert(h);
        } else {
            *self.features.entry("nontrivial_evaluations_beyond_fingerprint_cap".to_string()).or_default() += 1;
        }
    }

    /// Record `n` evaluations at once with an explicit distinctness key.
    pub fn eval_keyed(&mut self, prop: &str, nontrivial: bool, key: u64) {
        *self.evals.entry(prop.to_string()).or_default() += 1;
        if nontrivial {
            self.insert_fingerprint(prop, key);
        }
    }

    pub fn fail(&mut self, prop: &str, sig: &str, detail: String) {
        self.diverged = true;
        if self.findings.len() < 64 {
            self.findings.push(Finding {
                prop: prop.to_string(),
                sig: if !self.sig_prefix.is_empty() {
                    format!("{}{}", self.sig_prefix, sig.replace(self.sig_prefix.as_str(), ""))
                } else {
                    sig.to_string()
                },
                detail,
                case_seed: self.case_seed,
                op_index: self.op_index,
            });
        }
    }

    pub fn feat(&mut self, name: &str, n: u64) {
        *self.features.entry(name.to_string()).or_default() += n;
    }

    pub fn feat_max(&mut self, name: &str, n: u64) {
        let e = self.features.entry(name.to_string()).or_default();
        if n > *e {
            *e = n;
        }
    }

    pub fn t(&mut self, s: String) {
        if self.trace.len() < 4000 {
            self.trace.push(s);
        }
    }

    pub fn sample(&mut self, prop: &str, v: Value) {
        let e = self.samples.entry(prop.to_string()).or_default();
        if e.len() < 3 {
            e.push(v);
        }
    }

    pub fn merge(&mut self, other: Rep) {
        for (k, v) in other.evals {
            *self.evals.entry(k).or_default() += v;
        }
        const TOTAL_CAP: usize = 4_000_000;
        for (k, v) in other.nontrivial {
            let set = self.nontrivial.entry(k).or_default();
            if set.len() + v.len() <= TOTAL_CAP {
                set.extend(v);
            } else {
                let mut dropped = 0u64;
                for h in v {
                    if set.len() < TOTAL_CAP {
                        set.insert(h);
                    } else {
                        dropped += 1;
                    }
                }
                *self.features.entry("nontrivial_evaluations_beyond_fingerprint_cap".to_string()).or_default() += dropped;
            }
        }
        if !other.findings.is_empty() {
            self.diverged = true;
        }
        self.findings.extend(other.findings);
        self.inconclusive.extend(other.inconclusive);
        for (k, v) in other.features {
            if k.starts_with("max_") {
                let e = self.features.entry(k).or_default();
                *e = (*e).max(v);
            } else {
                *self.features.entry(k).or_default() += v;
            }
        }
        for (k, v) in other.samples {
            let e = self.samples.entry(k).or_default();
            for s in v {
                if e.len() < 4 {
                    e.push(s);
                }
            }
        }
    }

    pub fn to_json(&self) -> Value {
        json!({
            "evals": self.evals,
            "nontrivial": self.nontrivial.iter().map(|(k, v)| (k.clone(), v.iter().copied().collect::<Vec<u64>>())).collect::<BTreeMap<_, _>>(),
            "findings": self.findings.iter().map(|f| json!({
                "prop": f.prop, "sig": f.sig, "detail": f.detail, "case_seed": f.case_seed, "op_index": f.op_index
            })).collect::<Vec<_>>(),
            "inconclusive": self.inconclusive,
            "features": self.features,
            "samples": self.samples,
        })
    }

    pub fn from_json(v: &Value) -> Rep {
        let mut r = Rep::default();
        if let Some(o) = v["evals"].as_object() {
            for (k, n) in o {
                r.evals.insert(k.clone(), n.as_u64().unwrap_or(0));
            }
        }
        if let Some(o) = v["nontrivial"].as_object() {
            for (k, arr) in o {
                let set = arr
                    .as_array()
                    .map(|a| a.iter().filter_map(|x| x.as_u64()).collect())
                    .unwrap_or_default();
                r.nontrivial.insert(k.clone(), set);
            }
        }
        if let Some(a) = v["findings"].as_array() {
            for f in a {
                r.findings.push(Finding {
                    prop: f["prop"].as_str().unwrap_or("").to_string(),
                    sig: f["sig"].as_str().unwrap_or("").to_string(),
                    detail: f["detail"].as_str().unwrap_or("").to_string(),
                    case_seed: f["case_seed"].as_u64().unwrap_or(0),
                    op_index: f["op_index"].as_u64().unwrap_or(0),
                });
            }
        }
        if let Some(a) = v["inconclusive"].as_array() {
            r.inconclusive = a.iter().filter_map(|x| x.as_str().map(|s| s.to_string())).collect();
        }
        if let Some(o) = v["features"].as_object() {
            for (k, n) in o {
                r.features.insert(k.clone(), n.as_u64().unwrap_or(0));
            }
        }
        if let Some(o) = v["samples"].as_object() {
            for (k, a) in o {
                r.samples.insert(k.clone(), a.as_array().cloned().unwrap_or_default());
            }
        }
        r
    }
}

pub fn hex(b: &[u8]) -> String {
    let mut s = String::with_capacity(b.len() * 2);
    for x in b {
        s.push_str(&format!("{:02x}", x));
    }
    s
}

pub fn hex8(b: &[u8]) -> String {
    hex(&b[..b.len().min(8)])
}

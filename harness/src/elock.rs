//! E-LOCK (C20): at most one live handle per directory; refused opens change nothing; the
//! directory can be opened again as soon as the holder is gone; no I/O after drop returned.

use crate::cfg::Cfg;
use crate::io_rec::{recorder, Mode};
use crate::sut::{guard, Db};
use nomt::{KeyReadWrite, SessionParams};
use nvcore::reftrie::B3;
use nvcore::report::Rep;
use nvcore::rng::{derive, Rng};
use serde_json::json;
use std::collections::BTreeMap;
use std::path::{Path, PathBuf};
use std::sync::{Arc, Barrier};
use std::time::{Duration, Instant};

type K = B3;

fn now_ns() -> u64 {
    let mut ts = libc::timespec { tv_sec: 0, tv_nsec: 0 };
    unsafe { libc::clock_gettime(libc::CLOCK_MONOTONIC, &mut ts) };
    ts.tv_sec as u64 * 1_000_000_000 + ts.tv_nsec as u64
}

fn dir_hashes(dir: &Path) -> BTreeMap<String, (u64, [u8; 32])> {
    let mut out = BTreeMap::new();
    if let Ok(rd) = std::fs::read_dir(dir) {
        for e in rd.flatten() {
            let name = e.file_name().to_string_lossy().to_string();
            if let Ok(b) = std::fs::read(e.path()) {
                out.insert(name, (b.len() as u64, <B3 as nvcore::reftrie::HashKind>::h(&b)));
            }
        }
    }
    out
}

fn lock_cfg(rng: &mut Rng) -> Cfg {
    let mut c = Cfg::default_small();
    c.buckets = 512;
    c.commit_concurrency = *rng.pick(&[1usize, 2, 4]);
    c.io_workers = *rng.pick(&[1usize, 3]);
    c.rollback = rng.bool();
    c.warm_up = rng.bool();
    c
}

fn commit_some(db: &Db<K>, rng: &mut Rng, n: usize) -> bool {
    let sess = db.begin_session(SessionParams::default());
    let mut keys = std::collections::BTreeSet::new();
    while keys.len() < n {
        keys.insert(rng.key());
    }
    let actuals: Vec<_> = keys
        .into_iter()
        .map(|k| (k, KeyReadWrite::Write(Some(vec![7u8; 1 + (k[0] as usize % 40)]))))
        .collect();
    match sess.finish(actuals) {
        Ok(f) => f.commit(db).is_ok(),
        Err(_) => false,
    }
}

/// Entry point of `nv lockchild <dir> <hold_ms> <mode> <out>`: tries to open, reports
/// "<result> <t_call> <t_return> <t_release>", holds the handle, then ends as `mode` says
/// (drop | sigkill-self | exit-without-drop).
pub fn lockchild(args: &[String]) -> i32 {
    let dir = PathBuf::from(&args[0]);
    let hold: u64 = args[1].parse().unwrap_or(0);
    let mode = args[2].as_str();
    let out = PathBuf::from(&args[3]);
    let mut c = Cfg::default_small();
    c.buckets = 512;
    let t0 = now_ns();
    let r = Db::<K>::open(c.options(&dir));
    let t1 = now_ns();
    match r {
        Ok(db) => {
            std::thread::sleep(Duration::from_millis(hold));
            let t2 = now_ns();
            let _ = std::fs::write(&out, format!("ok {t0} {t1} {t2}\n"));
            match mode {
                "sigkill-self" => unsafe {
                    libc::kill(libc::getpid(), libc::SIGKILL);
                },
                "exit-without-drop" => unsafe { libc::_exit(0) },
                _ => drop(db),
            }
            0
        }
        Err(_) => {
            let _ = std::fs::write(&out, format!("err {t0} {t1} {t1}\n"));
            0
        }
    }
}

pub fn run_case(seed: u64, scratch: &Path, rep: &mut Rep) {
    let mut rng = Rng::new(derive(seed, &[20]));
    let _ = std::fs::remove_dir_all(scratch);
    std::fs::create_dir_all(scratch).unwrap();
    let cfg = lock_cfg(&mut rng);
    let dir = scratch.join("db");
    let rec = recorder();
    rec.start(&dir, Mode::Off);
    rep.sample("_case", json!({"engine": "E-LOCK", "seed": seed, "cfg": cfg.to_json()}));
    let scenario = rng.below(10);
    rep.feat(&format!("scenario_{scenario}"), 1);
    match scenario {
        0 | 1 => thread_race_with_holder(rep, &mut rng, &cfg, &dir),
        2 => thread_race_no_holder(rep, &mut rng, &cfg, &dir, false),
        3 => thread_race_no_holder(rep, &mut rng, &cfg, &dir, true),
        4 => process_race(rep, &mut rng, &cfg, &dir, scratch),
        5 => after_end(rep, &mut rng, &cfg, &dir, scratch),
        6 => quiet_after_drop(rep, &mut rng, &cfg, &dir),
        8 | 9 => churn(rep, &mut rng, &cfg, &dir),
        _ => reopen_after_failure(rep, &mut rng, &cfg, &dir),
    }
    rec.start(&dir, Mode::Off);
    let _ = std::fs::remove_dir_all(scratch);
}

fn thread_race_with_holder(rep: &mut Rep, rng: &mut Rng, cfg: &Cfg, dir: &Path) {
    let Ok(holder) = Db::<K>::open(cfg.options(dir)) else {
        rep.inconclusive.push("cannot create store".into());
        return;
    };
    commit_some(&holder, rng, 30);
    let before = dir_hashes(dir);
    let n = rng.range(2, 12) as usize;
    let barrier = Arc::new(Barrier::new(n));
    let handles: Vec<_> = (0..n)
        .map(|i| {
            let b = barrier.clone();
            let mut c = cfg.clone();
            // openers use varying options
            c.commit_concurrency = 1 + i % 3;
            let d = dir.to_path_buf();
            std::thread::spawn(move || {
                b.wait();
                let t0 = now_ns();
                let r = guard(|| Db::<K>::open(c.options(&d)));
                let t1 = now_ns();
                let ok = matches!(r, Ok(Ok(_)));
                let panicked = r.is_err();
                drop(r);
                (ok, panicked, t0, t1)
            })
        })
        .collect();
    let res: Vec<_> = handles.into_iter().map(|h| h.join().unwrap()).collect();
    let overlapping = res.len() >= 2;
    for (i, (ok, panicked, _, _)) in res.iter().enumerate() {
        rep.eval("C20", overlapping);
        if *ok {
            rep.fail(
                "C20",
                "second-handle-while-first-alive:threads",
                format!("opener #{i} of {n} racing threads got a handle while the first handle was alive"),
            );
        }
        if *panicked {
            rep.fail("C20", "open-panicked", format!("opener #{i} panicked"));
        }
    }
    let after = dir_hashes(dir);
    rep.eval("C20", true);
    if before != after {
        let changed: Vec<&String> = before.keys().chain(after.keys()).filter(|k| before.get(*k) != after.get(*k)).collect();
        rep.fail(
            "C20",
            "refused-open-modified-files",
            format!("{n} refused opens changed files of the live store: {:?}", changed),
        );
    }
    // the holder still works
    if !commit_some(&holder, rng, 5) {
        rep.fail("C20", "holder-broken-by-refused-open", "the live handle can no longer commit after refused opens".into());
    }
    drop(holder);
    // and the directory opens again right away
    rep.eval("C20", true);
    match guard(|| Db::<K>::open(cfg.options(dir))) {
        Ok(Ok(db)) => drop(db),
        Ok(Err(e)) => rep.fail("C20", "open-after-drop-failed", format!("open right after drop failed: {e:#}")),
        Err(p) => rep.fail("C20", "open-panicked", p),
    }
}

fn thread_race_no_holder(rep: &mut Rep, rng: &mut Rng, cfg: &Cfg, dir: &Path, fresh: bool) {
    if !fresh {
        let Ok(db) = Db::<K>::open(cfg.options(dir)) else { return };
        commit_some(&db, rng, 20);
        drop(db);
    }
    let n = rng.range(2, 12) as usize;
    let barrier = Arc::new(Barrier::new(n));
    let done = Arc::new(Barrier::new(n));
    let handles: Vec<_> = (0..n)
        .map(|_| {
            let b = barrier.clone();
            let dn = done.clone();
            let c = cfg.clone();
            let d = dir.to_path_buf();
            std::thread::spawn(move || {
                b.wait();
                let r = guard(|| Db::<K>::open(c.options(&d)));
                let ok = matches!(r, Ok(Ok(_)));
                let err = match &r {
                    Ok(Ok(_)) => String::new(),
                    Ok(Err(e)) => format!("{e:#}"),
                    Err(p) => format!("PANIC {p}"),
                };
                // winners keep their handle until every attempt has finished
                dn.wait();
                let mut works = true;
                if let Ok(Ok(db)) = &r {
                    let mut rng = Rng::new(3);
                    works = commit_some(db, &mut rng, 5);
                }
                drop(r);
                (ok, works, err)
            })
        })
        .collect();
    let res: Vec<_> = handles.into_iter().map(|h| h.join().unwrap()).collect();
    let winners = res.iter().filter(|r| r.0).count();
    rep.eval("C20", true);
    let what = if fresh { "creation race on a fresh directory" } else { "open race on an existing store" };
    if winners > 1 {
        rep.fail(
            "C20",
            &format!("two-live-handles:{}", if fresh { "create-race" } else { "open-race" }),
            format!("{what}: {winners} of {n} racing threads hold a handle at the same time"),
        );
    }
    if winners == 0 && fresh {
        // Not a C20 matter: no handle was ever alive. (Store creation has an acknowledged
        // check-then-create window: an opener that finds the half-created directory can take the
        // lock first, fail on the missing manifest and make the creator fail on the lock.)
        rep.feat("creation_race_without_winner", 1);
        return;
    }
    if winners == 0 {
        rep.fail("C20", "no-winner", format!("{what}: none of {n} openers succeeded although no handle was alive; errors: {:?}; dir now: {:?}", res.iter().map(|r| r.2.clone()).collect::<Vec<_>>(), std::fs::read_dir(dir).map(|rd| rd.flatten().map(|e| e.file_name().to_string_lossy().to_string()).collect::<Vec<_>>())));
    }
    if res.iter().any(|r| r.0 && !r.1) {
        rep.fail("C20", "winner-broken-by-losers", format!("{what}: the winner could not commit afterwards"));
    }
    // after everybody is gone it opens again and is sane
    rep.eval("C20", true);
    match guard(|| Db::<K>::open(cfg.options(dir))) {
        Ok(Ok(db)) => {
            if !commit_some(&db, rng, 3) {
                rep.fail("C20", "store-broken-after-race", format!("{what}: store does not accept a commit afterwards"));
            }
        }
        Ok(Err(e)) => rep.fail("C20", "open-after-race-failed", format!("{what}: reopen failed: {e:#}")),
        Err(p) => rep.fail("C20", "open-panicked", p),
    }
}

/// Threads hammer open / drop on one store; a live counter catches two simultaneous holders.
fn churn(rep: &mut Rep, rng: &mut Rng, cfg: &Cfg, dir: &Path) {
    {
        let Ok(db) = Db::<K>::open(cfg.options(dir)) else { return };
        commit_some(&db, rng, 10);
    }
    let live = Arc::new(std::sync::atomic::AtomicI64::new(0));
    let max_seen = Arc::new(std::sync::atomic::AtomicI64::new(0));
    let acquisitions = Arc::new(std::sync::atomic::AtomicU64::new(0));
    let n = rng.range(3, 8) as usize;
    let run_ms = rng.range(80, 300);
    let t_end = Instant::now() + Duration::from_millis(run_ms);
    let handles: Vec<_> = (0..n)
        .map(|i| {
            let (live, max_seen, acq) = (live.clone(), max_seen.clone(), acquisitions.clone());
            let c = cfg.clone();
            let d = dir.to_path_buf();
            std::thread::spawn(move || {
                let mut x = i as u64 * 7919 + 1;
                while Instant::now() < t_end {
                    if let Ok(Ok(db)) = guard(|| Db::<K>::open(c.options(&d))) {
                        let l = live.fetch_add(1, std::sync::atomic::Ordering::SeqCst) + 1;
                        max_seen.fetch_max(l, std::sync::atomic::Ordering::SeqCst);
                        acq.fetch_add(1, std::sync::atomic::Ordering::SeqCst);
                        x = x.wrapping_mul(6364136223846793005).wrapping_add(1);
                        if x % 3 == 0 {
                            std::thread::sleep(Duration::from_micros(x % 400));
                        }
                        live.fetch_sub(1, std::sync::atomic::Ordering::SeqCst);
                        drop(db);
                    }
                }
            })
        })
        .collect();
    for h in handles {
        let _ = h.join();
    }
    let acq = acquisitions.load(std::sync::atomic::Ordering::SeqCst);
    rep.eval("C20", acq >= 2);
    rep.feat("churn_acquisitions", acq);
    let m = max_seen.load(std::sync::atomic::Ordering::SeqCst);
    if m > 1 {
        rep.fail(
            "C20",
            "two-live-handles:open-drop-churn",
            format!("{n} threads opening and dropping the store: {m} handles were alive at the same time ({acq} acquisitions)"),
        );
    }
    rep.eval("C20", true);
    match guard(|| Db::<K>::open(cfg.options(dir))) {
        Ok(Ok(_)) => {}
        Ok(Err(e)) => rep.fail("C20", "open-after-churn-failed", format!("open after the churn failed: {e:#}")),
        Err(p) => rep.fail("C20", "open-panicked", p),
    }
}

fn spawn_lockchild(dir: &Path, hold_ms: u64, mode: &str, out: &Path) -> Option<std::process::Child> {
    let exe = std::env::current_exe().ok()?;
    std::process::Command::new(exe)
        .arg("lockchild")
        .arg(dir)
        .arg(hold_ms.to_string())
        .arg(mode)
        .arg(out)
        .stdout(std::process::Stdio::null())
        .stderr(std::process::Stdio::null())
        .spawn()
        .ok()
}

fn process_race(rep: &mut Rep, rng: &mut Rng, cfg: &Cfg, dir: &Path, scratch: &Path) {
    {
        let mut c = cfg.clone();
        c.buckets = 512;
        let Ok(db) = Db::<K>::open(c.options(dir)) else { return };
        commit_some(&db, rng, 10);
        drop(db);
    }
    let n = rng.range(2, 8) as usize;
    let mut children = Vec::new();
    for i in 0..n {
        let out = scratch.join(format!("lc{i}.txt"));
        let hold = rng.range(5, 60);
        if let Some(c) = spawn_lockchild(dir, hold, "drop", &out) {
            children.push((c, out));
        }
    }
    // a thread of this process joins the race too
    let t_res = {
        let mut c = cfg.clone();
        c.buckets = 512;
        let t0 = now_ns();
        let r = guard(|| Db::<K>::open(c.options(dir)));
        let t1 = now_ns();
        let ok = matches!(r, Ok(Ok(_)));
        std::thread::sleep(Duration::from_millis(10));
        let t2 = now_ns();
        drop(r);
        (ok, t0, t1, t2)
    };
    let mut intervals: Vec<(u64, u64)> = Vec::new();
    if t_res.0 {
        intervals.push((t_res.2, t_res.3));
    }
    for (mut c, out) in children {
        let _ = c.wait();
        if let Ok(s) = std::fs::read_to_string(&out) {
            let p: Vec<&str> = s.split_whitespace().collect();
            if p.len() == 4 && p[0] == "ok" {
                // alive from the return of open until the release timestamp
                intervals.push((p[2].parse().unwrap_or(0), p[3].parse().unwrap_or(0)));
            }
        }
    }
    intervals.sort();
    rep.eval("C20", intervals.len() >= 2 || n >= 2);
    for w in intervals.windows(2) {
        if w[1].0 < w[0].1 {
            rep.fail(
                "C20",
                "two-live-handles:processes",
                format!("two processes held a handle on the directory at the same time: [{}, {}] and [{}, {}] (ns)", w[0].0, w[0].1, w[1].0, w[1].1),
            );
        }
    }
    rep.feat("process_race_holders", intervals.len() as u64);
}

fn after_end(rep: &mut Rep, rng: &mut Rng, cfg: &Cfg, dir: &Path, scratch: &Path) {
    {
        let mut c = cfg.clone();
        c.buckets = 512;
        let Ok(db) = Db::<K>::open(c.options(dir)) else { return };
        commit_some(&db, rng, 10);
    }
    let mut c = cfg.clone();
    c.buckets = 512;
    for mode in ["sigkill-self", "exit-without-drop", "drop"] {
        let out = scratch.join("end.txt");
        let _ = std::fs::remove_file(&out);
        let Some(mut child) = spawn_lockchild(dir, 20, mode, &out) else { continue };
        // while the child holds it, we must be refused
        let t0 = Instant::now();
        let mut refused_while_alive = None;
        while t0.elapsed() < Duration::from_millis(15) {
            if let Ok(Ok(_db)) = guard(|| Db::<K>::open(c.options(dir))) {
                refused_while_alive = Some(false);
                break;
            }
            std::thread::sleep(Duration::from_millis(3));
        }
        let _ = refused_while_alive;
        let _ = child.wait();
        rep.eval("C20", true);
        match guard(|| Db::<K>::open(c.options(dir))) {
            Ok(Ok(db)) => {
                if !commit_some(&db, rng, 3) {
                    rep.fail("C20", &format!("store-broken-after-holder-ended:{mode}"), format!("after the holder ended by {mode} the store does not accept a commit"));
                }
            }
            Ok(Err(e)) => rep.fail("C20", &format!("open-after-holder-ended-failed:{mode}"), format!("holder ended by {mode}; open failed: {e:#}")),
            Err(p) => rep.fail("C20", "open-panicked", p),
        }
    }
    // holder ends by a panic unwinding through its scope
    let d = dir.to_path_buf();
    let c2 = c.clone();
    let _ = std::thread::spawn(move || {
        let _db = Db::<K>::open(c2.options(&d)).ok();
        std::panic::set_hook(Box::new(|_| {}));
        panic!("holder panics");
    })
    .join();
    let _ = std::panic::take_hook();
    rep.eval("C20", true);
    match guard(|| Db::<K>::open(c.options(dir))) {
        Ok(Ok(_)) => {}
        Ok(Err(e)) => rep.fail("C20", "open-after-holder-ended-failed:panic", format!("holder ended by panic unwinding; open failed: {e:#}")),
        Err(p) => rep.fail("C20", "open-panicked", p),
    }
}

/// After `drop(nomt)` returned no background writer of the old handle touches the directory.
fn quiet_after_drop(rep: &mut Rep, rng: &mut Rng, cfg: &Cfg, dir: &Path) {
    let rec = recorder();
    let Ok(db) = Db::<K>::open(cfg.options(dir)) else { return };
    for _ in 0..rng.range(1, 4) {
        let n = rng.range(5, 200) as usize;
        commit_some(&db, rng, n);
    }
    // an unfinished session, possibly with warm-ups in flight
    let s = db.begin_session(SessionParams::default());
    for _ in 0..20 {
        s.warm_up(rng.key());
    }
    drop(s);
    drop(db);
    rec.start(dir, Mode::Record);
    let h1 = dir_hashes(dir);
    std::thread::sleep(Duration::from_millis(40));
    let h2 = dir_hashes(dir);
    let ev = rec.stop();
    rep.eval("C20", true);
    if !ev.is_empty() {
        rep.fail(
            "C20",
            "io-after-drop",
            format!("{} I/O events on the directory after drop(nomt) returned, first: {}", ev.len(), crate::io_rec::describe(&ev[0])),
        );
    }
    if h1 != h2 {
        rep.fail("C20", "files-changed-after-drop", "files changed after drop(nomt) returned".into());
    }
    rep.eval("C20", true);
    match guard(|| Db::<K>::open(cfg.options(dir))) {
        Ok(Ok(_)) => {}
        Ok(Err(e)) => rep.fail("C20", "open-after-drop-failed", format!("open right after drop failed: {e:#}")),
        Err(p) => rep.fail("C20", "open-panicked", p),
    }
}

/// After a failed (poisoning) commit the handle is dropped and the directory must open at once.
fn reopen_after_failure(rep: &mut Rep, rng: &mut Rng, cfg: &Cfg, dir: &Path) {
    let rec = recorder();
    for round in 0..6 {
        let db = match guard(|| Db::<K>::open(cfg.options(dir))) {
            Ok(Ok(db)) => db,
            other => {
                rep.eval("C20", true);
                rep.fail(
                    "C20",
                    "open-after-failed-commit-failed",
                    format!("round {round}: open after (failed commit, drop) failed: {:?}", other.map(|r| r.map(|_| ()).map_err(|e| format!("{e:#}")))),
                );
                return;
            }
        };
        commit_some(&db, rng, 20);
        // fail some mutating event of the next commit
        let wide = rng.bool();
        let at = rng.below(if wide { 70 } else { 14 });
        rec.start(dir, Mode::Inject { at, errno: libc::EIO, persistent: rng.bool() });
        let ok = commit_some(&db, rng, 20);
        let injected = rec.st.lock().injected;
        rec.start(dir, Mode::Off);
        rep.eval("C20", injected > 0 && !ok);
        rep.feat("failed_commits_before_reopen", (injected > 0 && !ok) as u64);
        // sometimes try once more on the dead handle
        if rng.bool() {
            let _ = commit_some(&db, rng, 2);
        }
        drop(db);
        if injected > 0 && !ok {
            // no background writer of the failed handle may outlive the drop
            rec.start(dir, Mode::Record);
            std::thread::sleep(Duration::from_millis(if round % 2 == 0 { 5 } else { 40 }));
            let ev = rec.stop();
            rep.eval("C20", true);
            if !ev.is_empty() {
                rep.fail(
                    "C20",
                    &format!("io-after-drop-of-failed-handle:{}", ev[0].site),
                    format!(
                        "round {round}: commit failed by EIO at mutating event {at}; after drop(nomt) returned {} more I/O events hit the directory, first: {}",
                        ev.len(),
                        crate::io_rec::describe(&ev[0])
                    ),
                );
                return;
            }
        }
    }
    rep.eval("C20", true);
    match guard(|| Db::<K>::open(cfg.options(dir))) {
        Ok(Ok(_)) => {}
        Ok(Err(e)) => rep.fail("C20", "open-after-failed-commit-failed", format!("final open failed: {e:#}")),
        Err(p) => rep.fail("C20", "open-panicked", p),
    }
}

/// Debug aid (`nv lockfail`): open, commit, make the next commit / rollback fail at a random
/// mutating event, drop the handle and open again at once; counts lock failures.
pub fn stress_reopen_after_failure() {
    let iters: u64 = std::env::var("ITERS").ok().and_then(|v| v.parse().ok()).unwrap_or(2000);
    let seed: u64 = std::env::var("SEED").ok().and_then(|v| v.parse().ok()).unwrap_or(1);
    let mut rng = Rng::new(seed);
    let dir = PathBuf::from(format!("/dev/shm/nv-lockfail.{}", std::process::id()));
    let _ = std::fs::remove_dir_all(&dir);
    let mut c = Cfg::default_small();
    c.rollback = true;
    c.commit_concurrency = std::env::var("CC").ok().and_then(|v| v.parse().ok()).unwrap_or(4);
    c.warm_up = std::env::var("NO_WARM").is_err();
    let rec = recorder();
    let mut fails = 0;
    let mut failed_commits = 0;
    for i in 0..iters {
        let db = match Db::<K>::open(c.options(&dir)) {
            Ok(db) => db,
            Err(e) => {
                println!("iter {i}: open at loop start failed: {e:#}");
                let _ = std::fs::remove_dir_all(&dir);
                continue;
            }
        };
        commit_some(&db, &mut rng, 30);
        let at = rng.below(40);
        let persistent = rng.bool();
        rec.start(&dir, Mode::Inject { at, errno: libc::EIO, persistent });
        let ok = if rng.below(4) == 0 { db.rollback(1).is_ok() } else { commit_some(&db, &mut rng, 30) };
        let (injected, site) = {
            let st = rec.st.lock();
            (st.injected, st.injected_site.clone())
        };
        rec.start(&dir, Mode::Off);
        if injected > 0 && !ok {
            failed_commits += 1;
        }
        drop(db);
        match Db::<K>::open(c.options(&dir)) {
            Ok(db) => drop(db),
            Err(e) => {
                fails += 1;
                let mut names = Vec::new();
                for t in std::fs::read_dir("/proc/self/task").unwrap() {
                    let t = t.unwrap();
                    names.push(std::fs::read_to_string(t.path().join("comm")).unwrap_or_default().trim().to_string());
                }
                println!("iter {i}: reopen failed: {e:#}; injected={injected} ok={ok} site={site:?} at={at} persistent={persistent}; threads: {names:?}");
                std::thread::sleep(Duration::from_millis(300));
                match Db::<K>::open(c.options(&dir)) {
                    Ok(db) => {
                        println!("   retry after 300ms: ok");
                        drop(db)
                    }
                    Err(e) => {
                        println!("   retry after 300ms: still failing: {e:#}");
                        let _ = std::fs::remove_dir_all(&dir);
                    }
                }
            }
        }
        if i % 50 == 49 {
            let _ = std::fs::remove_dir_all(&dir);
        }
    }
    println!("lock failures: {fails}/{iters} (failed commits: {failed_commits})");
    let _ = std::fs::remove_dir_all(&dir);
}

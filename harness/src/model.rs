//! Sequential reference model of a NOMT store.

use nvcore::reftrie::{root_of, Hash, HashKind, Key, RefTrie};
use std::marker::PhantomData;
use std::sync::Arc;

#[derive(Clone, Debug, PartialEq, Eq)]
pub struct Val {
    pub bytes: Vec<u8>,
    pub hash: Hash,
}

pub type Kv = imbl::OrdMap<Key, Arc<Val>>;

pub fn mk_val<K: HashKind>(bytes: Vec<u8>) -> Arc<Val> {
    let hash = K::h(&bytes);
    Arc::new(Val { bytes, hash })
}

pub fn kv_items(kv: &Kv) -> Vec<(Key, Hash)> {
    kv.iter().map(|(k, v)| (*k, v.hash)).collect()
}

pub fn kv_root<K: HashKind>(kv: &Kv) -> Hash {
    root_of::<K>(&kv_items(kv))
}

pub fn kv_trie<K: HashKind>(kv: &Kv) -> RefTrie {
    RefTrie::build::<K>(&kv_items(kv))
}

pub fn kv_apply<K: HashKind>(kv: &Kv, writes: &[(Key, Option<Vec<u8>>)]) -> Kv {
    let mut out = kv.clone();
    for (k, v) in writes {
        match v {
            Some(v) => {
                out.insert(*k, mk_val::<K>(v.clone()));
            }
            None => {
                out.remove(k);
            }
        }
    }
    out
}

/// The model of the committed store.
pub struct Model<K> {
    pub kv: Kv,
    /// `undo[i]` is the state before the i-th not-yet-undone commit (oldest first). Never pruned
    /// by the log-length limit: the store may physically retain more records than configured and
    /// is then allowed to serve deeper rollbacks, which must still restore the true state.
    pub undo: Vec<Kv>,
    /// How many of the most recent commits MUST be undoable (what the property guarantees):
    /// grows by one per commit up to the configured limit, shrinks by n on rollback(n).
    pub g: usize,
    pub rollback_enabled: bool,
    pub max_log: usize,
    pub seqn: u32,
    /// Every committed state ever reached (diagnostics).
    pub history: Vec<Kv>,
    _k: PhantomData<K>,
}

impl<K> Clone for Model<K> {
    fn clone(&self) -> Self {
        Model {
            kv: self.kv.clone(),
            undo: self.undo.clone(),
            g: self.g,
            rollback_enabled: self.rollback_enabled,
            max_log: self.max_log,
            seqn: self.seqn,
            history: self.history.clone(),
            _k: PhantomData,
        }
    }
}

impl<K: HashKind> Model<K> {
    pub fn new(rollback_enabled: bool, max_log: usize) -> Self {
        Model {
            kv: Kv::new(),
            undo: Vec::new(),
            g: 0,
            rollback_enabled,
            max_log,
            seqn: 0,
            history: vec![Kv::new()],
            _k: PhantomData,
        }
    }

    pub fn root(&self) -> Hash {
        kv_root::<K>(&self.kv)
    }

    /// Apply a successful commit whose resulting state is `new`.
    pub fn commit_state(&mut self, new: Kv) {
        if self.rollback_enabled {
            self.undo.push(self.kv.clone());
            self.g = (self.g + 1).min(self.max_log);
        }
        self.kv = new;
        self.seqn += 1;
        self.history.push(self.kv.clone());
    }

    pub fn commit_writes(&mut self, writes: &[(Key, Option<Vec<u8>>)]) {
        let new = kv_apply::<K>(&self.kv, writes);
        self.commit_state(new);
    }

    /// Number of rollbacks that are guaranteed to succeed.
    pub fn guaranteed(&self) -> usize {
        if !self.rollback_enabled {
            0
        } else {
            self.g.min(self.undo.len())
        }
    }

    /// Number of commits that exist to be undone at all.
    pub fn retained(&self) -> usize {
        self.undo.len()
    }

    /// State n commits back, if n commits exist.
    pub fn state_back(&self, n: usize) -> Option<&Kv> {
        if n == 0 {
            return Some(&self.kv);
        }
        if n <= self.undo.len() {
            Some(&self.undo[self.undo.len() - n])
        } else {
            None
        }
    }

    pub fn rollback(&mut self, n: usize) {
        assert!(n >= 1 && n <= self.undo.len());
        let idx = self.undo.len() - n;
        self.kv = self.undo[idx].clone();
        self.undo.truncate(idx);
        self.g = self.g.saturating_sub(n);
        self.seqn += 1;
        self.history.push(self.kv.clone());
    }

    /// Reopen with (possibly) different rollback options: only the limit changes.
    pub fn reconfigure(&mut self, rollback_enabled: bool, max_log: usize) {
        self.rollback_enabled = rollback_enabled;
        self.max_log = max_log;
        self.g = self.g.min(max_log);
    }
}

//! E-MODEL: seeded random histories against a real store, checked against the reference model.

use crate::cfg::Cfg;
use crate::gen::{gen_batch, gen_delete_smallest, gen_mass_delete, BatchParams, ValProfile};
use crate::model::{kv_root, Kv};
use nvcore::report::{hex8, Rep};
use crate::sut::{batch_writes, guard, msg_class, Access, Batch, Prepared, Sut};
use nomt::{Overlay, SessionParams};
use nvcore::keygen::{KeyPool, KeyProfile};
use nvcore::reftrie::{Hash, HashKind, Key, B3, S2};
use nvcore::rng::{derive, Rng};
use serde_json::json;
use std::path::Path;

#[derive(Clone, Debug)]
pub struct Profile {
    pub name: &'static str,
    pub ops: (u64, u64),
    pub pool: (u64, u64),
    pub key_profile: [u32; 3], // uniform, mixed, clustered
    pub val: ValProfile,
    pub batch: (u64, u64),
    /// op weights: commit, overlay-step, contest, rollback, reopen, probe, mass-delete
    pub w: [u32; 7],
    pub rollback_pct: u64,
    pub small_segments: bool,
    pub witness_pct: u64,
    pub prove_per_commit: usize,
    pub vary_cfg: bool,
    pub big_initial: u64, // per-mille chance of a large initial fill
    pub ladder_at_end: bool,
    pub full_sweep_every: u64,
    /// may the history commit a changeset whose base state was left and re-entered (same root,
    /// intervening commits)? Only where the known ABA finding is being tracked.
    pub allow_aba: bool,
    /// run the independent on-disk decoder at every quiescent point
    pub decode: bool,
    /// fill / overwrite / empty cycles with frontier-drift check (C19)
    pub cycles: bool,
}

pub fn profile(name: &str) -> Profile {
    let base = Profile {
        name: "base",
        ops: (8, 40),
        pool: (50, 1500),
        key_profile: [3, 4, 3],
        val: ValProfile::Small,
        batch: (1, 300),
        w: [60, 8, 3, 6, 6, 6, 4],
        rollback_pct: 40,
        small_segments: false,
        witness_pct: 20,
        prove_per_commit: 4,
        vary_cfg: true,
        big_initial: 100,
        ladder_at_end: false,
        full_sweep_every: 8,
        allow_aba: false,
        decode: false,
        cycles: false,
    };
    let mut p = match name {
        "C01" => Profile {
            name: "C01",
            val: ValProfile::Boundary,
            w: [70, 3, 1, 4, 5, 4, 6],
            big_initial: 250,
            ..base
        },
        "C02" => Profile {
            name: "C02",
            val: ValProfile::Tiny,
            key_profile: [1, 3, 6],
            w: [55, 22, 1, 4, 5, 4, 8],
            batch: (1, 200),
            ..base
        },
        "C05" => Profile {
            name: "C05",
            val: ValProfile::Small,
            key_profile: [1, 3, 6],
            w: [40, 14, 3, 4, 10, 30, 4],
            prove_per_commit: 24,
            allow_aba: true,
            ..base
        },
        "C06" => Profile {
            name: "C06",
            witness_pct: 100,
            w: [80, 10, 0, 3, 3, 2, 4],
            key_profile: [2, 4, 4],
            ..base
        },
        "C09" => Profile {
            name: "C09",
            rollback_pct: 100,
            small_segments: true,
            ops: (10, 45),
            pool: (30, 400),
            batch: (1, 80),
            w: [38, 18, 0, 28, 12, 2, 2],
            val: ValProfile::Small,
            ladder_at_end: true,
            big_initial: 0,
            ..base
        },
        "C10" => Profile {
            name: "C10",
            w: [45, 6, 1, 8, 35, 3, 5],
            rollback_pct: 60,
            small_segments: true,
            ..base
        },
        "C11" => Profile {
            name: "C11",
            w: [15, 70, 2, 6, 4, 3, 2],
            rollback_pct: 60,
            pool: (30, 600),
            batch: (1, 120),
            ladder_at_end: true,
            big_initial: 50,
            ..base
        },
        "C12" => Profile {
            name: "C12",
            w: [20, 10, 55, 8, 4, 2, 1],
            rollback_pct: 90,
            ops: (6, 24),
            pool: (20, 300),
            batch: (1, 60),
            ladder_at_end: true,
            big_initial: 0,
            ..base
        },
        "C13" => Profile {
            name: "C13",
            w: [65, 8, 2, 5, 6, 8, 6],
            witness_pct: 40,
            prove_per_commit: 8,
            key_profile: [2, 4, 4],
            ..base
        },
        "C16" => Profile {
            name: "C16",
            val: ValProfile::Boundary,
            w: [58, 8, 1, 6, 6, 2, 14],
            key_profile: [2, 3, 5],
            decode: true,
            big_initial: 200,
            ..base
        },
        "C19" => Profile {
            name: "C19",
            val: ValProfile::Boundary,
            w: [55, 8, 1, 6, 4, 1, 20],
            key_profile: [3, 4, 3],
            decode: true,
            cycles: true,
            big_initial: 0,
            ..base
        },
        _ => base,
    };
    if std::env::var("NV_FORCE_DECODE").is_ok() {
        p.decode = true;
    }
    if std::env::var("NV_FULL_SWEEP").is_ok() {
        p.full_sweep_every = 1;
    }
    p
}

#[derive(PartialEq, Clone, Copy, Debug)]
enum OvStatus {
    Live,
    Committed,
    Gone, // dropped, or consumed by a refused commit
}

struct OvEntry {
    ov: Option<Overlay>,
    parent: Option<usize>,
    base_root: Hash,
    state: Kv,
    root: Hash,
    status: OvStatus,
    depth: usize,
    /// commit epoch at which the overlay was prepared
    epoch: u64,
}

pub struct Case<'a, K: HashKind> {
    pub sut: Sut<K>,
    pub rep: &'a mut Rep,
    pub rng: Rng,
    pub hint_rng: Rng,
    pub pool: KeyPool,
    pub p: Profile,
    ovs: Vec<OvEntry>,
    stamp: u64,
    commits: u64,
    /// index in `ovs` of the overlay that was the most recent commit (None: the last commit was
    /// not one of the tracked overlays)
    commit_marker: Option<usize>,
    /// a commit was rejected or deferred earlier in this history
    rejections_seen: bool,
    /// number of successful commits + rollbacks so far
    epoch: u64,
    pub hook: Option<&'a mut (dyn FnMut(&Sut<K>, &mut Rep, &str) + 'a)>,
}

pub fn pick_seg_size(rng: &mut Rng) -> u64 {
    *rng.pick(&[4096u64, 8192, 8192, 12288, 16384, 32768])
}

/// Run one case. `hist_seed` determines the history; `cfg_seed` determines configuration, hasher
/// and hints.
pub fn run_case(pname: &str, hist_seed: u64, cfg_seed: u64, dir: &Path, rep: &mut Rep) {
    let mut crng = Rng::new(derive(cfg_seed, &[1]));
    let use_sha2 = crng.chance(1, 5);
    if use_sha2 {
        run_case_k::<S2>(pname, hist_seed, cfg_seed, dir, rep, None);
    } else {
        run_case_k::<B3>(pname, hist_seed, cfg_seed, dir, rep, None);
    }
}

pub fn run_case_k<'a, K: HashKind>(
    pname: &str,
    hist_seed: u64,
    cfg_seed: u64,
    dir: &Path,
    rep: &'a mut Rep,
    hook: Option<&'a mut (dyn FnMut(&Sut<K>, &mut Rep, &str) + 'a)>,
) {
    let p = profile(pname);
    let mut rng = Rng::new(derive(hist_seed, &[7]));
    let mut crng = Rng::new(derive(cfg_seed, &[2]));
    // history-level choices (from the history rng so they are equal across configurations)
    let rollback = rng.below(100) < p.rollback_pct;
    let max_log = if rollback { *rng.pick(&[1u32, 2, 2, 3, 5, 100]) } else { 100 };
    let seg_size = if rollback && p.small_segments && rng.chance(4, 5) {
        pick_seg_size(&mut rng)
    } else {
        0
    };
    let pool_size = rng.range(p.pool.0, p.pool.1) as usize;
    let kp = [KeyProfile::Uniform, KeyProfile::Mixed, KeyProfile::Clustered][rng.weighted(&p.key_profile)];
    let pool = KeyPool::generate(&mut rng, pool_size, kp);
    let n_ops = rng.range(p.ops.0, p.ops.1);

    let mut cfg = if p.vary_cfg { Cfg::sample(&mut crng) } else { Cfg::default_small() };
    cfg.rollback = rollback;
    cfg.max_log = max_log;
    cfg.seg_size = seg_size;
    rep.t(format!(
        "case profile={} hasher={} hist_seed={} cfg_seed={} ops={} pool={} keys({:?}: {}) cfg={}",
        p.name,
        K::NAME,
        hist_seed,
        cfg_seed,
        n_ops,
        pool.keys.len(),
        kp,
        pool.descr.join(","),
        cfg.to_json()
    ));
    rep.sample(
        "_case",
        json!({"profile": p.name, "hasher": K::NAME, "hist_seed": hist_seed, "cfg_seed": cfg_seed, "ops": n_ops,
               "pool_keys": pool.keys.len(), "key_geometry": pool.descr, "cfg": cfg.to_json()}),
    );
    let Some(sut) = Sut::<K>::create(dir, cfg, rep) else {
        return;
    };
    let mut case = Case {
        sut,
        rep,
        rng,
        hint_rng: Rng::new(derive(cfg_seed, &[3])),
        pool,
        p,
        ovs: Vec::new(),
        stamp: hist_seed << 20,
        commits: 0,
        commit_marker: None,
        rejections_seen: false,
        epoch: 0,
        hook,
    };
    case.run(n_ops);
}

impl<'a, K: HashKind> Case<'a, K> {
    fn quiescent(&mut self, what: &str) {
        if self.p.decode && !self.sut.dead && (!self.rep.diverged || std::env::var("NV_FORCE_DECODE").is_ok()) {
            decode_check::<K>(&self.sut, self.rep, what);
        }
        if let Some(h) = self.hook.as_mut() {
            h(&self.sut, self.rep, what);
        }
    }

    fn run(&mut self, n_ops: u64) {
        // empty store checks
        self.sut.check_root(self.rep, "fresh", false);
        if self.rng.below(1000) < self.p.big_initial {
            let n = self.rng.range(2000, 12000) as usize;
            self.initial_fill(n);
        }
        if self.p.cycles && self.rng.chance(1, 2) {
            self.run_cycles();
            if !self.sut.dead && !self.rep.diverged {
                self.sut.check_root(self.rep, "after-cycles", true);
            }
            self.drop_all_overlays();
            self.sut.db = None;
            return;
        }
        for i in 0..n_ops {
            if self.sut.dead || self.rep.diverged {
                // the first divergence ends the case: anything after it would only cascade
                self.sut.dead = true;
                break;
            }
            self.rep.op_index = i + 1;
            let kind = self.rng.weighted(&self.p.w);
            match kind {
                0 => self.op_commit(),
                1 => self.op_overlay_step(),
                2 => self.op_contest(),
                3 => self.op_rollback(),
                4 => self.op_reopen(),
                5 => self.op_probe(),
                _ => self.op_mass_delete(),
            }
        }
        if self.rep.diverged {
            self.sut.dead = true;
        }
        if !self.sut.dead && self.p.ladder_at_end && self.sut.model.rollback_enabled {
            self.rep.op_index = n_ops + 1;
            self.ladder();
        }
        if self.rep.diverged {
            self.sut.dead = true;
        }
        if !self.sut.dead {
            // final reopen: "no sequence of commits and rollbacks makes the store fail to reopen"
            self.rep.op_index = n_ops + 2;
            let cfg = self.sut.cfg.clone();
            self.drop_all_overlays();
            if self.sut.reopen(self.rep, &mut self.rng, cfg, "final-reopen") {
                self.sut.check_root(self.rep, "final-reopen", true);
                self.quiescent("final-reopen");
            }
        }
        self.drop_all_overlays();
        self.sut.db = None;
    }

    /// C19: repeat an identical fill / overwrite / (partly) empty workload; after the warm-up
    /// cycles the allocation frontiers after the empty phase must not keep growing.
    fn run_cycles(&mut self) {
        let n_cycles = self.rng.range(8, 12);
        let n_keys = *self.rng.pick(&[60usize, 200, 600, 1500]);
        let big_share = self.rng.below(3); // 0: in-leaf only, 1: some overflow, 2: many overflow
        let mut keys: Vec<Key> = Vec::new();
        let mut set = std::collections::BTreeSet::new();
        while set.len() < n_keys {
            set.insert(self.rng.key());
        }
        keys.extend(set);
        let lens: Vec<(usize, usize)> = keys
            .iter()
            .map(|_| {
                let l = |rng: &mut Rng| match (big_share, rng.below(10)) {
                    (0, _) => rng.range(1, 900) as usize,
                    (1, 0) => rng.range(1400, 9000) as usize,
                    (2, 0..=3) => rng.range(1400, 70000) as usize,
                    _ => rng.range(1, 1300) as usize,
                };
                (l(&mut self.rng), l(&mut self.rng))
            })
            .collect();
        self.rep.t(format!("cycles n={n_cycles} keys={n_keys} big_share={big_share}"));
        let mut frontiers: Vec<(u32, u32)> = Vec::new();
        for c in 0..n_cycles {
            if self.sut.dead || self.rep.diverged {
                return;
            }
            self.rep.op_index = c * 3 + 1;
            let st = self.next_stamp();
            // fill
            let b: Batch = keys
                .iter()
                .enumerate()
                .map(|(i, k)| (*k, Access::Write(Some(crate::gen::stamped_value(st + i as u64, lens[i].0)))))
                .collect();
            self.commit_batch(b, 0, "cycle-fill");
            if self.sut.dead || self.rep.diverged {
                return;
            }
            // overwrite with the other length (in-leaf <-> overflow migration)
            self.rep.op_index = c * 3 + 2;
            let b: Batch = keys
                .iter()
                .enumerate()
                .map(|(i, k)| (*k, Access::Write(Some(crate::gen::stamped_value(st + 5000 + i as u64, lens[i].1)))))
                .collect();
            self.commit_batch(b, if c % 3 == 2 { 8 } else { 0 }, "cycle-overwrite");
            if self.sut.dead || self.rep.diverged {
                return;
            }
            // empty
            self.rep.op_index = c * 3 + 3;
            let b: Batch = keys.iter().map(|k| (*k, Access::Write(None))).collect();
            self.commit_batch(b, 0, "cycle-empty");
            if self.sut.dead || self.rep.diverged {
                return;
            }
            if let Ok(m) = crate::decode::read_meta(&self.sut.dir) {
                frontiers.push((m.ln_bump, m.bbn_bump));
            }
            // occupancy is zero on an empty store
            let occ = self.sut.db().hash_table_utilization().occupied;
            self.rep.eval("C19", true);
            if self.sut.model.kv.is_empty() && occ != 0 {
                self.rep.fail(
                    "C19",
                    "occupancy-nonzero-on-empty-store",
                    format!("cycle {c}: store is empty but hash_table_utilization().occupied = {occ}"),
                );
            }
        }
        if frontiers.len() >= 8 {
            let warm_ln = frontiers[1..5].iter().map(|f| f.0).max().unwrap();
            let warm_bbn = frontiers[1..5].iter().map(|f| f.1).max().unwrap();
            let late_ln = frontiers[5..].iter().map(|f| f.0).max().unwrap();
            let late_bbn = frontiers[5..].iter().map(|f| f.1).max().unwrap();
            self.rep.eval("C19", true);
            self.rep.sample("C19", serde_json::json!({"cycle_frontiers_(ln_bump,bbn_bump)_after_empty": frontiers, "keys": n_keys, "big_share": big_share}));
            if late_ln > warm_ln || late_bbn > warm_bbn {
                self.rep.fail(
                    "C19",
                    "frontier-drift",
                    format!(
                        "identical fill/overwrite/empty cycles: frontier after the empty phase keeps growing: (ln_bump, bbn_bump) per cycle = {:?}",
                        frontiers
                    ),
                );
            }
            self.rep.feat("cycle_runs", 1);
        }
    }

    fn drop_all_overlays(&mut self) {
        for e in self.ovs.iter_mut() {
            if e.status == OvStatus::Live {
                e.status = OvStatus::Gone;
            }
            e.ov = None;
        }
    }

    fn next_stamp(&mut self) -> u64 {
        self.stamp += 1 << 12;
        self.stamp
    }

    fn batch_params(&mut self) -> BatchParams {
        // skew: mostly small batches, sometimes large
        let (lo, hi) = self.p.batch;
        let size = match self.rng.below(10) {
            0..=5 => self.rng.range(lo, (lo + 12).min(hi)),
            6..=8 => self.rng.range(lo, hi),
            _ => self.rng.range(hi, hi * 4),
        } as usize;
        let w = match self.rng.below(5) {
            0 => [10, 60, 10, 5, 5, 10],  // insert heavy
            1 => [10, 10, 20, 45, 5, 10], // delete heavy
            2 => [10, 10, 60, 5, 5, 10],  // overwrite heavy
            3 => [30, 15, 15, 10, 10, 20],
            _ => [15, 30, 20, 15, 5, 15],
        };
        BatchParams {
            size,
            val: self.p.val,
            w,
        }
    }

    fn initial_fill(&mut self, n: usize) {
        let mut b: Batch = Vec::with_capacity(n);
        let mut keys = std::collections::BTreeSet::new();
        let variant = self.rng.below(3);
        if variant == 0 {
            while keys.len() < n {
                keys.insert(self.rng.key());
            }
        } else {
            // one or two big clusters sharing a long prefix (stops branch-node prefix compression
            // once far-away keys arrive), plus far keys on both sides
            let n_clusters = 1 + self.rng.usize_below(2);
            for _ in 0..n_clusters {
                let base = self.rng.key();
                let plen = *self.rng.pick(&[64usize, 96, 120, 128, 136, 160, 200]);
                let c = nvcore::keygen::cluster(&mut self.rng, &base, plen, n / n_clusters);
                keys.extend(c);
            }
            for _ in 0..self.rng.range(0, 40) {
                keys.insert(self.rng.key());
            }
            if variant == 2 {
                let mut k = [0xffu8; 32];
                for i in 0..self.rng.range(1, 30) {
                    k[31] = i as u8;
                    k[1] = self.rng.below(256) as u8;
                    keys.insert(k);
                }
            }
        }
        let st = self.next_stamp();
        let small_only = variant != 0 && self.rng.bool();
        // "leafy": values large enough for ~3-5 cells per leaf, so that a few thousand keys
        // give thousands of leaves and dozens of branch nodes
        let leafy = !small_only && self.rng.chance(1, 3);
        if leafy {
            self.rep.feat("initial_fill_leafy", 1);
        }
        for (i, k) in keys.into_iter().enumerate() {
            let len = if small_only {
                self.rng.range(0, 24) as usize
            } else if leafy {
                self.rng.range(600, 1332) as usize
            } else {
                crate::gen::value_len(&mut self.rng, ValProfile::Small)
            };
            b.push((k, Access::Write(Some(crate::gen::stamped_value(st + i as u64, len)))));
        }
        self.rep.t(format!("initial-fill n={} variant={variant}", b.len()));
        self.rep.feat(&format!("initial_fill_variant_{variant}"), 1);
        self.commit_batch(b, 0, "initial-fill");
        // add some of these keys to the pool so later ops touch them (start, middle, end)
        let total = self.sut.model.kv.len();
        let mut extra: Vec<Key> = self.sut.model.kv.keys().step_by(61).copied().collect();
        extra.extend(self.sut.model.kv.keys().take(8).copied());
        extra.extend(self.sut.model.kv.keys().skip(total.saturating_sub(8)).copied());
        // far keys right after / before the clusters
        for _ in 0..16 {
            let mut k = self.rng.key();
            k[0] = *self.rng.pick(&[0x00u8, 0xff, 0xfe, 0x01, 0x80, 0x7f]);
            extra.push(k);
        }
        self.pool.keys.extend(extra);
        if variant != 0 && !self.sut.dead && !self.rep.diverged && self.rng.chance(2, 3) {
            self.far_keys_stage();
        }
    }

    /// After a clustered fill: a second commit adds keys far outside the cluster with values large
    /// enough to spread over several leaves (their separators cannot share the cluster's prefix
    /// and are stored un-compressed at the end of the branch node); then single far keys are
    /// overwritten / deleted one commit at a time so that individual un-compressed separators
    /// are rewritten while their neighbours are kept.
    fn far_keys_stage(&mut self) {
        let hi = self.rng.bool();
        let n_far = self.rng.range(4, 40) as usize;
        let mut far: Vec<Key> = Vec::new();
        for i in 0..n_far {
            let mut k = if hi { [0xffu8; 32] } else { [0u8; 32] };
            k[1] = (i as u8).wrapping_mul(5).wrapping_add(1);
            k[2] = self.rng.below(256) as u8;
            k[31] = 1;
            far.push(k);
        }
        far.sort();
        far.dedup();
        let st = self.next_stamp();
        let mut b: Batch = Vec::new();
        for (i, k) in far.iter().enumerate() {
            let len = self.rng.range(900, 1332) as usize;
            b.push((*k, Access::Write(Some(crate::gen::stamped_value(st + i as u64, len)))));
        }
        self.rep.feat("far_keys_stage", 1);
        self.commit_batch(b, 0, "far-keys");
        self.pool.keys.extend(far.iter().copied());
        for _ in 0..self.rng.range(2, 6) {
            if self.sut.dead || self.rep.diverged {
                return;
            }
            let k = *self.rng.pick(&far);
            let st = self.next_stamp();
            let a = match self.rng.below(4) {
                0 => Access::Write(None),
                _ => {
                    let len = self.rng.range(1, 1332) as usize;
                    Access::Write(Some(crate::gen::stamped_value(st, len)))
                }
            };
            self.commit_batch(vec![(k, a)], 0, "far-key-point-update");
        }
    }

    /// A full hash table is a legitimate reason for any commit (or rollback) to be refused: C14
    /// covers how it must fail; here the history simply ends without a verdict.
    fn ended_by_exhaustion(&mut self, e: &str) -> bool {
        if e.contains("bucket exhaustion") {
            self.rep.feat("histories_ended_by_bucket_exhaustion", 1);
            self.sut.dead = true;
            true
        } else {
            false
        }
    }

    fn describe_batch(b: &Batch) -> String {
        let mut r = 0;
        let mut w = 0;
        let mut d = 0;
        let mut rw = 0;
        let mut maxlen = 0;
        for (_, a) in b {
            match a {
                Access::Read => r += 1,
                Access::Write(Some(v)) => {
                    w += 1;
                    maxlen = maxlen.max(v.len());
                }
                Access::Write(None) => d += 1,
                Access::ReadThenWrite(v) => {
                    rw += 1;
                    if let Some(v) = v {
                        maxlen = maxlen.max(v.len());
                    }
                }
            }
        }
        format!("batch(n={},reads={r},writes={w},deletes={d},rtw={rw},maxlen={maxlen})", b.len())
    }

    fn is_nontrivial_commit(view: &Kv, b: &Batch) -> bool {
        let writes = batch_writes(b);
        let touches_existing = writes.iter().any(|(k, _)| view.contains_key(k));
        let big = writes.iter().any(|(_, v)| v.as_ref().map_or(false, |v| v.len() > 1332));
        writes.len() >= 2 && (touches_existing || big || view.len() + writes.len() > 200)
    }

    // ------------------------------------------------------------------ commit

    /// One commit that inserts several hundred to a few thousand new keys sharing a fresh long
    /// prefix (they all resolve to one terminal of the previous trie), plus a few keys after the
    /// cluster: long runs of look-ahead / warm-up results for a single terminal.
    fn op_cluster_burst(&mut self) {
        let base = self.rng.key();
        let plen = self.rng.range(24, 200) as usize;
        let n = self.rng.range(520, 2200) as usize;
        let mut keys: std::collections::BTreeSet<Key> = nvcore::keygen::cluster(&mut self.rng, &base, plen, n).into_iter().collect();
        for _ in 0..self.rng.range(1, 6) {
            // keys after the cluster: same leading byte(s), larger
            let mut k = base;
            let i = (plen / 8).min(30);
            k[i] = k[i].saturating_add(1 + self.rng.below(3) as u8);
            k[31] = self.rng.below(256) as u8;
            keys.insert(k);
            keys.insert(self.rng.key());
        }
        let st = self.next_stamp();
        let b: Batch = keys
            .into_iter()
            .enumerate()
            .map(|(i, k)| {
                let len = self.rng.range(0, 12) as usize;
                (k, Access::Write(Some(crate::gen::stamped_value(st + i as u64, len))))
            })
            .collect();
        self.rep.feat("cluster_bursts", 1);
        let via = self.rng.below(10);
        self.commit_batch(b, via, "cluster-burst");
    }

    fn op_commit(&mut self) {
        if self.rng.below(100) < 5 {
            return self.op_cluster_burst();
        }
        let bp = self.batch_params();
        let st = self.next_stamp();
        let view = self.sut.model.kv.clone();
        let batch = gen_batch(&mut self.rng, &self.pool, &view, &bp, st);
        let via = self.rng.below(10);
        self.commit_batch(batch, via, "commit");
    }

    fn op_mass_delete(&mut self) {
        let view = self.sut.model.kv.clone();
        if view.is_empty() {
            return self.op_commit();
        }
        let b = match self.rng.below(6) {
            4 | 5 => {
                // wide update: every s-th key is deleted or rewritten with a value of another
                // size class, and new neighbours are inserted - many leaves (and, in large trees,
                // many branch nodes) split and merge in the same commit
                let stride = *self.rng.pick(&[2u64, 3, 5, 11, 37]);
                let phase = self.rng.below(stride);
                let st = self.next_stamp();
                let mut b: Batch = Vec::new();
                for (i, k) in view.keys().enumerate() {
                    if i as u64 % stride != phase {
                        continue;
                    }
                    match self.rng.below(10) {
                        0..=3 => b.push((*k, Access::Write(None))),
                        4..=6 => {
                            let len = self.rng.range(0, 40) as usize;
                            b.push((*k, Access::Write(Some(crate::gen::stamped_value(st + i as u64, len)))));
                        }
                        7..=8 => {
                            let len = self.rng.range(600, 1332) as usize;
                            b.push((*k, Access::Write(Some(crate::gen::stamped_value(st + i as u64, len)))));
                        }
                        _ => {
                            // a new neighbour right after k
                            let mut nk = *k;
                            nk[31] = nk[31].wrapping_add(1);
                            if nk > *k && !view.contains_key(&nk) {
                                let len = self.rng.range(0, 1332) as usize;
                                b.push((nk, Access::Write(Some(crate::gen::stamped_value(st + i as u64, len)))));
                            }
                        }
                    }
                }
                b.sort_by(|a, b| a.0.cmp(&b.0));
                b.dedup_by(|a, b| a.0 == b.0);
                self.rep.feat("wide_updates", 1);
                b
            }
            0 => gen_mass_delete(&mut self.rng, &view, 100),
            1 => {
                let keep = self.rng.range(1, 2) as usize;
                let mut b = gen_mass_delete(&mut self.rng, &view, 100);
                let n = b.len().saturating_sub(keep);
                self.rng.shuffle(&mut b);
                b.truncate(n);
                b.sort_by(|a, b| a.0.cmp(&b.0));
                b
            }
            2 => {
                let n = self.rng.range(1, (view.len() as u64 / 2).max(1)) as usize;
                gen_delete_smallest(&view, n)
            }
            _ => {
                let share = self.rng.range(30, 95);
                gen_mass_delete(&mut self.rng, &view, share)
            }
        };
        self.commit_batch(b, 0, "mass-delete");
    }

    /// Commit `batch` on the committed state. `via`: 0..=5 blocking session commit, 6..=7
    /// non-blocking session commit, 8 overlay + blocking commit, 9 overlay + non-blocking commit.
    fn commit_batch(&mut self, batch: Batch, via: u64, what: &str) {
        let view = self.sut.model.kv.clone();
        let witness = self.rng.below(100) < self.p.witness_pct;
        let ctx = format!("op{} {what} {} via={via} witness={witness}", self.rep.op_index, Self::describe_batch(&batch));
        self.rep.t(ctx.clone());
        let nontrivial = Self::is_nontrivial_commit(&view, &batch);
        if let Ok(pfx) = std::env::var("NV_TRACE_KEY") {
            for (k, a) in &batch {
                let h: String = k.iter().map(|b| format!("{b:02x}")).collect();
                if h.starts_with(&pfx) {
                    let d = match a {
                        Access::Read => "read".to_string(),
                        Access::Write(v) => format!("write {:?}", v.as_ref().map(|v| v.len())),
                        Access::ReadThenWrite(v) => format!("rtw {:?}", v.as_ref().map(|v| v.len())),
                    };
                    let had = view.get(k).map(|v| v.bytes.len());
                    self.rep.t(format!("   TRACE {h} {d} (model had {had:?})"));
                }
            }
        }
        let prove = self.p.prove_per_commit;
        let Some(mut prep) = self
            .sut
            .prepare(self.rep, &mut self.hint_rng, &[], &view, batch, witness, prove, &ctx)
        else {
            self.sut.dead = true;
            return;
        };
        if witness {
            match prep.fin.take_witness() {
                Some(w) => Sut::<K>::check_witness(
                    self.rep,
                    &w,
                    &view,
                    &prep.batch,
                    prep.base_root,
                    prep.new_root,
                    &ctx,
                    self.sut.cfg.commit_concurrency,
                ),
                None => {
                    self.rep.eval("C06", true);
                    self.rep.fail("C06", "no-witness", format!("{ctx}: take_witness returned None"));
                }
            }
        }
        let _ = nontrivial;
        self.finish_commit(prep, via, &ctx);
    }

    /// Commit a prepared changeset that is expected to succeed; update the model; run checks.
    fn finish_commit(&mut self, prep: Prepared<K>, via: u64, ctx: &str) -> bool {
        let view = self.sut.model.kv.clone();
        let nontrivial = Self::is_nontrivial_commit(&view, &prep.batch);
        let keys: Vec<Key> = prep.batch.iter().map(|(k, _)| *k).collect();
        let db = self.sut.db.as_ref().unwrap();
        let Prepared { fin, new_state, .. } = prep;
        let res: Result<Result<(), String>, String> = match via {
            0..=5 => guard(|| fin.commit(db).map_err(|e| format!("{e:#}"))),
            6..=7 => guard(|| match fin.try_commit_nonblocking(db) {
                Ok(None) => Ok(()),
                Ok(Some(back)) => {
                    // no other session is alive in this single-threaded history; retry blocking.
                    back.commit(db).map_err(|e| format!("after spurious deferral: {e:#}"))
                }
                Err(e) => Err(format!("{e:#}")),
            }),
            _ => {
                let ov = fin.into_overlay();
                let want_root = crate::model::kv_root::<K>(&new_state);
                if ov.root().into_inner() != want_root {
                    self.rep.fail("C11", "overlay-root", format!("{ctx}: Overlay::root wrong"));
                }
                if via == 8 {
                    guard(|| ov.commit(db).map_err(|e| format!("{e:#}")))
                } else {
                    guard(|| match ov.try_commit_nonblocking(db) {
                        Ok(None) => Ok(()),
                        Ok(Some(back)) => back.commit(db).map_err(|e| format!("after spurious deferral: {e:#}")),
                        Err(e) => Err(format!("{e:#}")),
                    })
                }
            }
        };
        match res {
            Ok(Ok(())) => {}
            Ok(Err(e)) => {
                self.sut.dead = true;
                if e.contains("bucket exhaustion") {
                    // a full hash table is a legitimate reason for a commit to fail (C14 covers
                    // how it must fail); the history simply ends here.
                    self.rep.feat("histories_ended_by_bucket_exhaustion", 1);
                    return false;
                }
                self.rep.eval("C01", nontrivial);
                self.rep.fail(
                    "C01",
                    &format!("commit-error:{}", msg_class(&e)),
                    format!("{ctx}: model-conforming commit failed: {e}"),
                );
                return false;
            }
            Err(p) => {
                self.rep.eval("C01", nontrivial);
                self.rep.fail(
                    "C01",
                    &format!("commit-panic:{}", msg_class(&p)),
                    format!("{ctx}: commit panicked: {p}"),
                );
                self.sut.dead = true;
                return false;
            }
        }
        self.sut.model.commit_state(new_state);
        self.commits += 1;
        self.epoch += 1;
        self.commit_marker = None;
        let sweep = self.p.full_sweep_every > 0 && self.commits % self.p.full_sweep_every == 0;
        self.sut
            .post_commit_checks(self.rep, &mut self.rng, &keys, ctx, nontrivial, sweep);
        self.rep.feat("commits", 1);
        self.rep.feat_max("max_keys", self.sut.model.kv.len() as u64);
        self.quiescent("commit");
        true
    }

    // ------------------------------------------------------------------ probe

    fn op_probe(&mut self) {
        let ctx = format!("op{} probe", self.rep.op_index);
        self.rep.t(ctx.clone());
        let view = self.sut.model.kv.clone();
        let root = kv_root::<K>(&view);
        let db = self.sut.db.as_ref().unwrap();
        let Ok(sess) = guard(|| db.begin_session(SessionParams::default())) else {
            self.rep.fail("C05", "begin_session-panic", ctx);
            return;
        };
        let mut keys = self.sut.probe_keys(&mut self.rng, &[], 16, 16);
        // absent keys diverging from one present key at every depth
        if !view.is_empty() && self.rng.chance(1, 2) {
            let all: Vec<Key> = view.keys().take(4096).copied().collect();
            let base = *self.rng.pick(&all);
            for d in 0..256 {
                keys.push(nvcore::keygen::diverge_at(&mut self.rng, &base, d));
            }
            self.rep.feat("every_depth_sweeps", 1);
        }
        self.sut.check_proofs(self.rep, &sess, &view, root, &keys, &ctx, false);
        drop(sess);
        self.sut.check_reads(self.rep, &keys[..keys.len().min(48)], &ctx, true);
    }

    // ------------------------------------------------------------------ reopen

    fn op_reopen(&mut self) {
        let mut cfg = self.sut.cfg.clone();
        if self.p.vary_cfg {
            cfg.resample_runtime(&mut self.hint_rng);
            // creation-time options are ignored on reopen; pass different ones on purpose
            if self.hint_rng.chance(1, 3) {
                cfg.buckets = *self.hint_rng.pick(&[64u32, 1000, 64000]);
                self.hint_rng.fill(&mut cfg.bitbox_seed);
            }
        }
        let ctx = format!("op{} reopen cfg={}", self.rep.op_index, cfg.to_json());
        self.rep.t(ctx.clone());
        self.drop_all_overlays();
        let orig_buckets = self.sut.cfg.buckets;
        let orig_seed = self.sut.cfg.bitbox_seed;
        if self.sut.reopen(self.rep, &mut self.rng, cfg, &ctx) {
            // remember the true creation-time values for reporting
            self.sut.cfg.buckets = orig_buckets;
            self.sut.cfg.bitbox_seed = orig_seed;
            self.rep.feat("reopens", 1);
            self.quiescent("reopen");
        }
    }

    // ------------------------------------------------------------------ rollback

    fn op_rollback(&mut self) {
        if !self.sut.model.rollback_enabled {
            // rollback on a store without the feature must fail and change nothing
            if self.rng.chance(1, 4) {
                self.rollback_expect_fail(1, "rollback-disabled");
            } else {
                self.op_commit();
            }
            return;
        }
        let g = self.sut.model.guaranteed();
        let choice = self.rng.below(10);
        if g == 0 || choice == 0 {
            // beyond what is guaranteed
            let n = g + 1 + self.rng.usize_below(2);
            self.rollback_beyond(n);
            return;
        }
        let n = match choice {
            1..=4 => 1,
            5..=6 => g,
            _ => self.rng.range(1, g as u64) as usize,
        };
        let prop = if self.rejections_seen { "C12" } else { "C09" };
        self.rollback_ok(n, prop);
    }

    fn rollback_ok(&mut self, n: usize, prop: &str) -> bool {
        let ctx = format!(
            "op{} rollback({n}) retained={} max_log={} seg_size={}",
            self.rep.op_index,
            self.sut.model.retained(),
            self.sut.model.max_log,
            self.sut.cfg.seg_size
        );
        self.rep.t(ctx.clone());
        self.drop_all_overlays();
        let db = self.sut.db.as_ref().unwrap();
        let nontrivial = self.sut.cfg.seg_size != 0 || n > 1 || self.sut.model.guaranteed() >= self.sut.model.max_log;
        self.rep.eval(prop, nontrivial);
        match guard(|| db.rollback(n)) {
            Ok(Ok(())) => {}
            Ok(Err(e)) if format!("{e:#}").contains("bucket exhaustion") => {
                self.rep.feat("histories_ended_by_bucket_exhaustion", 1);
                self.sut.dead = true;
                return false;
            }
            Ok(Err(e)) => {
                let m = format!("{e:#}");
                self.rep.fail(
                    prop,
                    &format!("rollback-failed:{}", msg_class(&m)),
                    format!("{ctx}: rollback within the retained range failed: {m}"),
                );
                // is the store still usable? (a failed rollback must change nothing)
                let poisoned = db.is_poisoned();
                self.rep.t(format!("  poisoned={poisoned} {}", crate::sut::dir_summary(&self.sut.dir)));
                self.sut.dead = true;
                // does it reopen?
                self.sut.db = None;
                if let Ok(Err(e2)) = guard(|| crate::sut::Db::<K>::open(self.sut.cfg.options(&self.sut.dir))) {
                    let m2 = format!("{e2:#}");
                    self.rep.fail(
                        prop,
                        &format!("reopen-failed-after-rollback:{}", msg_class(&m2)),
                        format!("{ctx}: store does not reopen after failed rollback: {m2}"),
                    );
                }
                return false;
            }
            Err(p) => {
                self.rep.fail(prop, &format!("rollback-panic:{}", msg_class(&p)), format!("{ctx}: {p}"));
                self.sut.dead = true;
                return false;
            }
        }
        self.sut.model.rollback(n);
        self.epoch += 1;
        self.commit_marker = None;
        let want = self.sut.model.root();
        let got = db.root().into_inner();
        if got != want {
            self.rep.fail(
                prop,
                "rollback-root",
                format!("{ctx}: root after rollback {} != state {n} commits back {}", hex8(&got), hex8(&want)),
            );
        }
        let seqn = db.sync_seqn();
        if seqn != self.sut.model.seqn {
            self.rep.fail(prop, "rollback-seqn", format!("{ctx}: sync_seqn {} != {}", seqn, self.sut.model.seqn));
        }
        // values: full sweep of the union of current model keys and the keys of the undone state
        let keys: Vec<Key> = if self.sut.model.kv.len() <= 6000 {
            self.sut.model.kv.keys().copied().collect()
        } else {
            self.sut.probe_keys(&mut self.rng, &[], 64, 0)
        };
        let mut extra = self.sut.probe_keys(&mut self.rng, &[], 0, 8);
        // keys that existed before the rollback but must be gone now
        let hist = &self.sut.model.history;
        if hist.len() >= 2 {
            let prev = &hist[hist.len() - 2];
            for k in prev.keys().take(3000) {
                if !self.sut.model.kv.contains_key(k) {
                    extra.push(*k);
                }
            }
        }
        let mut sub = self.rep.sub();
        sub.op_index = self.rep.op_index;
        self.sut.check_reads(&mut sub, &keys, &ctx, nontrivial);
        self.sut.check_reads(&mut sub, &extra, &ctx, nontrivial);
        for f in &sub.findings {
            self.rep.fail(prop, &format!("rollback-values:{}", f.sig), f.detail.clone());
        }
        // those read comparisons are evaluations of the rollback property, not of C01
        sub.findings.clear();
        sub.evals.remove("C01");
        sub.nontrivial.remove("C01");
        self.rep.merge(sub);
        self.rep.feat("rollbacks", 1);
        self.quiescent("rollback");
        true
    }

    fn rollback_expect_fail(&mut self, n: usize, why: &str) {
        let ctx = format!("op{} rollback({n}) expecting refusal ({why})", self.rep.op_index);
        self.rep.t(ctx.clone());
        self.drop_all_overlays();
        let db = self.sut.db.as_ref().unwrap();
        let before_root = db.root().into_inner();
        let before_seqn = db.sync_seqn();
        self.rep.eval("C09", false);
        match guard(|| db.rollback(n)) {
            Ok(Err(_)) => {
                if db.root().into_inner() != before_root || db.sync_seqn() != before_seqn {
                    self.rep.fail("C09", "refused-rollback-changed-state", format!("{ctx}: root/seqn changed"));
                }
                let keys = self.sut.probe_keys(&mut self.rng, &[], 16, 4);
                let mut sub = self.rep.sub();
                self.sut.check_reads(&mut sub, &keys, &ctx, false);
                for f in &sub.findings {
                    self.rep.fail("C09", "refused-rollback-changed-values", f.detail.clone());
                }
                if db.is_poisoned() {
                    self.rep.fail("C09", "refused-rollback-poisoned", format!("{ctx}: handle poisoned by a refused rollback"));
                    self.sut.dead = true;
                }
            }
            Ok(Ok(())) => {
                self.rep.fail("C09", "rollback-when-disabled", format!("{ctx}: succeeded"));
                self.sut.dead = true;
            }
            Err(p) => {
                self.rep.fail("C09", "rollback-panic", format!("{ctx}: {p}"));
                self.sut.dead = true;
            }
        }
    }

    /// Ask for more than the model guarantees. Either refusal (nothing changes) or success with
    /// exactly the true state n commits back is accepted. Returns true if the store served it.
    fn rollback_beyond(&mut self, n: usize) -> bool {
        let prop = if self.rejections_seen { "C12" } else { "C09" };
        let ctx = format!(
            "op{} rollback({n}) beyond guaranteed={} (commits that exist: {}) (permissive)",
            self.rep.op_index,
            self.sut.model.guaranteed(),
            self.sut.model.retained()
        );
        self.rep.t(ctx.clone());
        self.drop_all_overlays();
        let db = self.sut.db.as_ref().unwrap();
        let before_root = db.root().into_inner();
        let before_seqn = db.sync_seqn();
        self.rep.eval(prop, true);
        match guard(|| db.rollback(n)) {
            Ok(Err(_)) => {
                if db.root().into_inner() != before_root || db.sync_seqn() != before_seqn {
                    self.rep.fail(prop, "refused-rollback-changed-state", format!("{ctx}: root/seqn changed"));
                }
                if db.is_poisoned() {
                    self.rep.fail(prop, "refused-rollback-poisoned", format!("{ctx}: handle poisoned by a refused rollback"));
                    self.sut.dead = true;
                    return false;
                }
                let keys = self.sut.probe_keys(&mut self.rng, &[], 24, 4);
                let mut sub = self.rep.sub();
                self.sut.check_reads(&mut sub, &keys, &ctx, false);
                for f in &sub.findings {
                    self.rep.fail(prop, "refused-rollback-changed-values", f.detail.clone());
                }
                self.rep.feat("refused_rollbacks", 1);
                false
            }
            Ok(Ok(())) => {
                if n > self.sut.model.retained() {
                    self.rep.fail(
                        prop,
                        "phantom-rollback-record",
                        format!(
                            "{ctx}: succeeded although only {} commits exist to be undone (root {} -> {}, seqn {} -> {})",
                            self.sut.model.retained(),
                            hex8(&before_root),
                            hex8(&db.root().into_inner()),
                            before_seqn,
                            db.sync_seqn()
                        ),
                    );
                    self.sut.dead = true;
                    return true;
                }
                // served from records the store still physically holds: must be the true state
                self.sut.model.rollback(n);
                self.epoch += 1;
                self.commit_marker = None;
                let want = self.sut.model.root();
                let got = db.root().into_inner();
                if got != want {
                    self.rep.fail(
                        prop,
                        "rollback-root",
                        format!("{ctx}: served, but root {} != true state {n} commits back {}", hex8(&got), hex8(&want)),
                    );
                }
                if db.sync_seqn() != self.sut.model.seqn {
                    self.rep.fail(prop, "rollback-seqn", format!("{ctx}: sync_seqn {} != {}", db.sync_seqn(), self.sut.model.seqn));
                }
                let keys = self.sut.probe_keys(&mut self.rng, &[], 48, 8);
                let mut sub = self.rep.sub();
                self.sut.check_reads(&mut sub, &keys, &ctx, true);
                for f in &sub.findings {
                    self.rep.fail(prop, &format!("rollback-values:{}", f.sig), f.detail.clone());
                }
                self.rep.feat("rollback_beyond_served", 1);
                self.quiescent("rollback");
                true
            }
            Err(p) => {
                self.rep.fail(prop, "rollback-panic", format!("{ctx}: {p}"));
                self.sut.dead = true;
                false
            }
        }
    }

    /// Walk rollback(1) down the log: the guaranteed part must be served; after that the store
    /// may keep serving from records it physically still holds (each must restore the true
    /// state) until it refuses; it must refuse at the latest when no commit is left to undo.
    fn ladder(&mut self) {
        let prop = if self.rejections_seen || self.p.name == "C12" {
            "C12"
        } else if self.p.name == "C11" {
            "C11"
        } else {
            "C09"
        };
        self.rep.t(format!(
            "ladder guaranteed={} commits_existing={}",
            self.sut.model.guaranteed(),
            self.sut.model.retained()
        ));
        let cap = self.sut.model.retained() + 2;
        for _ in 0..cap {
            if self.sut.dead || self.rep.diverged {
                return;
            }
            if self.sut.model.guaranteed() > 0 {
                if !self.rollback_ok(1, prop) {
                    return;
                }
            } else {
                let saved = self.rejections_seen;
                if prop == "C12" {
                    self.rejections_seen = true;
                }
                let served = self.rollback_beyond(1);
                self.rejections_seen = saved;
                if !served {
                    return;
                }
            }
        }
    }

    // ------------------------------------------------------------------ overlays

    /// The uncommitted live ancestors of overlay `i` (including `i`), newest first.
    /// Returns None if some uncommitted ancestor is gone (chain incomplete).
    fn live_chain(&self, i: usize) -> Option<Vec<usize>> {
        let mut chain = Vec::new();
        let mut cur = Some(i);
        while let Some(c) = cur {
            match self.ovs[c].status {
                OvStatus::Committed => break,
                OvStatus::Gone => return None,
                OvStatus::Live => chain.push(c),
            }
            cur = self.ovs[c].parent;
        }
        Some(chain)
    }

    /// Is the chain rooted at the *current* committed state? (Its oldest uncommitted member's
    /// base root equals the model root.)
    fn chain_current(&self, chain: &[usize]) -> bool {
        match chain.last() {
            None => true,
            Some(&oldest) => {
                let e = &self.ovs[oldest];
                if e.base_root != self.sut.model.root() {
                    return false;
                }
                // same root is not enough: the base must not have been left and re-entered
                // (known ABA finding), unless this profile tracks that finding.
                self.p.allow_aba
                    || match e.parent {
                        None => e.epoch == self.epoch,
                        Some(p) => self.commit_marker == Some(p),
                    }
            }
        }
    }

    fn op_overlay_step(&mut self) {
        let live: Vec<usize> = (0..self.ovs.len()).filter(|&i| self.ovs[i].status == OvStatus::Live).collect();
        let choice = self.rng.below(100);
        if self.sut.model.rollback_enabled && self.rng.chance(1, 6) {
            self.ov_chain_scenario();
        } else if live.is_empty() || choice < 35 {
            self.ov_new(&live);
        } else if choice < 55 {
            self.ov_commit_valid(&live);
        } else if choice < 65 {
            self.ov_commit_invalid(&live);
        } else if choice < 75 {
            self.ov_drop(&live);
        } else if choice < 90 {
            self.ov_session(&live);
        } else {
            self.ov_bad_chain(&live);
        }
        if self.ovs.len() > 14 {
            // bound the tree
            self.drop_all_overlays();
            self.ovs.clear();
        }
    }

    /// A targeted composite: build a chain A <- B (<- C) on the committed state in which each
    /// overlay deletes keys its ancestor inserted, re-writes (blind `Write`) keys its ancestor
    /// deleted, and overwrites keys its ancestor overwrote; commit the chain in order and undo it
    /// again with single-step rollbacks. Every intermediate state is compared with the model.
    fn ov_chain_scenario(&mut self) {
        self.drop_all_overlays();
        self.ovs.clear();
        let depth = 2 + self.rng.usize_below(2);
        let ctx0 = format!("op{} overlay-chain-scenario depth={depth}", self.rep.op_index);
        self.rep.t(ctx0.clone());
        let mut prev_batch: Batch = Vec::new();
        for level in 0..depth {
            let (chain_idx, view) = match self.ovs.len() {
                0 => (Vec::new(), self.sut.model.kv.clone()),
                n => (self.live_chain(n - 1).unwrap_or_default(), self.ovs[n - 1].state.clone()),
            };
            let st = self.next_stamp();
            let mut m: std::collections::BTreeMap<Key, Access> = std::collections::BTreeMap::new();
            if level == 0 {
                // delete some present keys, insert a few, overwrite a few
                let present: Vec<Key> = view.keys().take(4000).copied().collect();
                for (j, k) in present.iter().enumerate() {
                    match self.rng.below(12) {
                        0 | 1 => {
                            m.insert(*k, Access::Write(None));
                        }
                        2 => {
                            m.insert(*k, Access::Write(Some(crate::gen::stamped_value(st + j as u64, 20))));
                        }
                        _ => {}
                    }
                    if m.len() > 40 {
                        break;
                    }
                }
                for j in 0..self.rng.range(1, 8) {
                    let k = self.pool.pick(&mut self.rng);
                    m.entry(k).or_insert(Access::Write(Some(crate::gen::stamped_value(st + 500 + j, 12))));
                }
            } else {
                for (j, (k, a)) in prev_batch.iter().enumerate() {
                    let r = self.rng.below(4);
                    match a.new_value() {
                        // ancestor deleted k: write it again blindly (or via read-then-write)
                        Some(None) if r < 2 => {
                            m.insert(*k, Access::Write(Some(crate::gen::stamped_value(st + j as u64, 9 + level))));
                        }
                        Some(None) if r == 2 => {
                            m.insert(*k, Access::ReadThenWrite(Some(crate::gen::stamped_value(st + j as u64, 9 + level))));
                        }
                        // ancestor wrote k: delete or overwrite it
                        Some(Some(_)) if r == 0 => {
                            m.insert(*k, Access::Write(None));
                        }
                        Some(Some(_)) if r == 1 => {
                            m.insert(*k, Access::Write(Some(crate::gen::stamped_value(st + j as u64, 30))));
                        }
                        _ => {}
                    }
                }
                for j in 0..self.rng.range(0, 4) {
                    let k = self.pool.pick(&mut self.rng);
                    m.entry(k).or_insert(Access::Write(Some(crate::gen::stamped_value(st + 900 + j, 10))));
                }
            }
            if m.is_empty() {
                let k = self.pool.pick(&mut self.rng);
                m.insert(k, Access::Write(Some(crate::gen::stamped_value(st, 8))));
            }
            let batch: Batch = m.into_iter().collect();
            prev_batch = batch.clone();
            let ctx = format!("{ctx0} level={level} {}", Self::describe_batch(&batch));
            self.rep.t(ctx.clone());
            let chain_refs: Vec<&Overlay> = chain_idx.iter().map(|&i| self.ovs[i].ov.as_ref().unwrap()).collect();
            let Some(prep) = self
                .sut
                .prepare(self.rep, &mut self.hint_rng, &chain_refs, &view, batch, false, 2, &ctx)
            else {
                return;
            };
            let parent = if self.ovs.is_empty() { None } else { Some(self.ovs.len() - 1) };
            let ov = prep.fin.into_overlay();
            self.ovs.push(OvEntry {
                ov: Some(ov),
                parent,
                base_root: prep.base_root,
                state: prep.new_state,
                root: prep.new_root,
                status: OvStatus::Live,
                depth: level + 1,
                epoch: self.epoch,
            });
        }
        // commit the chain in order
        for i in 0..self.ovs.len() {
            if self.sut.dead || self.rep.diverged {
                return;
            }
            let ctx = format!("{ctx0} commit level={i}");
            self.rep.t(ctx.clone());
            let ov = self.ovs[i].ov.take().unwrap();
            let db = self.sut.db.as_ref().unwrap();
            self.rep.eval("C11", true);
            match guard(|| ov.commit(db).map_err(|e| format!("{e:#}"))) {
                Ok(Ok(())) => {
                    let st = self.ovs[i].state.clone();
                    self.ovs[i].status = OvStatus::Committed;
                    self.sut.model.commit_state(st);
                    self.commits += 1;
                    self.epoch += 1;
                    self.commit_marker = Some(i);
                    let keys: Vec<Key> = self.sut.probe_keys(&mut self.rng, &[], 16, 4);
                    let mut sub = self.rep.sub();
                    self.sut.post_commit_checks(&mut sub, &mut self.rng, &keys, &ctx, true, false);
                    for f in &sub.findings {
                        self.rep.fail("C11", &format!("after-overlay-commit:{}", f.sig), f.detail.clone());
                    }
                    self.rep.merge(sub);
                    self.quiescent("overlay-commit");
                }
                Ok(Err(e)) if self.ended_by_exhaustion(&e) => {
                    return;
                }
                Ok(Err(e)) => {
                    self.rep.fail("C11", &format!("valid-overlay-commit-refused:{}", msg_class(&e)), format!("{ctx}: {e}"));
                    return;
                }
                Err(p) => {
                    self.rep.fail("C11", "overlay-commit-panic", format!("{ctx}: {p}"));
                    self.sut.dead = true;
                    return;
                }
            }
        }
        self.rep.feat("overlay_chain_scenarios", 1);
        // and undo it step by step
        let prop = if self.p.name == "C09" { "C09" } else { "C11" };
        let steps = self.sut.model.guaranteed().min(depth);
        for _ in 0..steps {
            if self.sut.dead || self.rep.diverged || !self.rollback_ok(1, prop) {
                return;
            }
        }
        self.ovs.clear();
    }

    fn ov_new(&mut self, live: &[usize]) {
        // parent: none (committed state) or a live overlay with a complete, current chain
        let candidates: Vec<usize> = live
            .iter()
            .copied()
            .filter(|&i| self.live_chain(i).map_or(false, |c| self.chain_current(&c) && c.len() < 8))
            .collect();
        let parent = if candidates.is_empty() || self.rng.chance(1, 4) {
            None
        } else {
            Some(*self.rng.pick(&candidates))
        };
        let (chain_idx, view) = match parent {
            None => (Vec::new(), self.sut.model.kv.clone()),
            Some(p) => (self.live_chain(p).unwrap(), self.ovs[p].state.clone()),
        };
        let bp = self.batch_params();
        let st = self.next_stamp();
        let mut batch = gen_batch(&mut self.rng, &self.pool, &view, &bp, st);
        // make deletes of keys that exist only in an ancestor overlay likely
        if let Some(p) = parent {
            let mut extra = Vec::new();
            for (k, _) in self.ovs[p].state.iter().take(2000) {
                if !self.sut.model.kv.contains_key(k) && self.rng.chance(1, 6) {
                    extra.push((*k, Access::Write(None)));
                }
            }
            if !extra.is_empty() {
                let mut m: std::collections::BTreeMap<Key, Access> = batch.into_iter().collect();
                for (k, a) in extra {
                    m.insert(k, a);
                }
                batch = m.into_iter().collect();
            }
        }
        let witness = self.rng.below(100) < self.p.witness_pct;
        let ctx = format!(
            "op{} overlay-new parent={:?} chain_len={} {} witness={witness}",
            self.rep.op_index,
            parent,
            chain_idx.len(),
            Self::describe_batch(&batch)
        );
        self.rep.t(ctx.clone());
        let chain_refs: Vec<&Overlay> = chain_idx.iter().map(|&i| self.ovs[i].ov.as_ref().unwrap()).collect();
        let prove = self.p.prove_per_commit;
        let Some(mut prep) = self
            .sut
            .prepare(self.rep, &mut self.hint_rng, &chain_refs, &view, batch, witness, prove, &ctx)
        else {
            return;
        };
        if witness {
            if let Some(w) = prep.fin.take_witness() {
                Sut::<K>::check_witness(
                    self.rep,
                    &w,
                    &view,
                    &prep.batch,
                    prep.base_root,
                    prep.new_root,
                    &ctx,
                    self.sut.cfg.commit_concurrency,
                );
            }
        }
        let depth = chain_idx.len() + 1;
        let ov = prep.fin.into_overlay();
        let got = ov.root().into_inner();
        self.rep.eval("C11", depth >= 2);
        if got != prep.new_root {
            self.rep.fail(
                "C11",
                "overlay-root",
                format!("{ctx}: Overlay::root {} != reference {}", hex8(&got), hex8(&prep.new_root)),
            );
        }
        self.rep.feat_max("max_overlay_depth", depth as u64);
        self.ovs.push(OvEntry {
            ov: Some(ov),
            parent,
            base_root: prep.base_root,
            state: prep.new_state,
            root: prep.new_root,
            status: OvStatus::Live,
            depth,
            epoch: self.epoch,
        });
    }

    /// A read/prove-only session on a live chain.
    fn ov_session(&mut self, live: &[usize]) {
        let candidates: Vec<usize> = live
            .iter()
            .copied()
            .filter(|&i| self.live_chain(i).map_or(false, |c| self.chain_current(&c)))
            .collect();
        if candidates.is_empty() {
            return;
        }
        let i = *self.rng.pick(&candidates);
        let chain_idx = self.live_chain(i).unwrap();
        let view = self.ovs[i].state.clone();
        let root = self.ovs[i].root;
        let ctx = format!("op{} overlay-session on={} chain_len={}", self.rep.op_index, i, chain_idx.len());
        self.rep.t(ctx.clone());
        let chain_refs: Vec<&Overlay> = chain_idx.iter().map(|&i| self.ovs[i].ov.as_ref().unwrap()).collect();
        let db = self.sut.db.as_ref().unwrap();
        let params = match SessionParams::default().overlay(chain_refs.iter().copied()) {
            Ok(p) => p,
            Err(e) => {
                self.rep.eval("C11", true);
                self.rep.fail("C11", "valid-chain-refused", format!("{ctx}: {e:?}"));
                return;
            }
        };
        let Ok(sess) = guard(|| db.begin_session(params)) else {
            self.rep.fail("C11", "begin_session-panic", ctx);
            return;
        };
        // keys: changed in the chain, plus model keys, plus absent
        let mut keys = crate::sut::probe_keys_of(&view, &mut self.rng, &[], 16, 8);
        for (k, _) in self.sut.model.kv.iter().take(2000) {
            if !view.contains_key(k) {
                keys.push(*k); // deleted inside the chain
            }
        }
        keys.truncate(64);
        for k in &keys {
            let want = view.get(k).map(|v| v.bytes.clone());
            self.rep.eval("C11", chain_idx.len() >= 2);
            match guard(|| sess.read(*k)) {
                Ok(Ok(got)) => {
                    if got != want {
                        self.rep.fail(
                            "C11",
                            "overlay-session-read",
                            format!("{ctx}: read({}) = {} want {}", hex8(k), crate::sut::descr(&got), crate::sut::descr(&want)),
                        );
                    }
                }
                other => self.rep.fail("C11", "overlay-session-read-error", format!("{ctx}: {other:?}")),
            }
        }
        let mut sub = self.rep.sub();
        sub.op_index = self.rep.op_index;
        self.sut.check_proofs(&mut sub, &sess, &view, root, &keys[..keys.len().min(24)], &ctx, true);
        for f in &sub.findings {
            self.rep.fail("C11", &format!("overlay-proof:{}", f.sig), f.detail.clone());
        }
        self.rep.merge(sub);
    }

    fn ov_commit_valid(&mut self, live: &[usize]) {
        // an overlay whose parent is None/committed, and whose base is the current root
        let cands: Vec<usize> = live
            .iter()
            .copied()
            .filter(|&i| {
                let e = &self.ovs[i];
                let parent_ok = match e.parent {
                    None => true,
                    Some(p) => self.ovs[p].status == OvStatus::Committed,
                };
                parent_ok && e.base_root == self.sut.model.root()
            })
            .collect();
        if cands.is_empty() {
            return;
        }
        let i = *self.rng.pick(&cands);
        if self.ovs[i].parent.is_none() && self.ovs[i].epoch != self.epoch {
            if !self.p.allow_aba {
                return;
            }
            self.note_aba();
        }
        // The parent-marker rule: if the overlay has a committed parent, that parent must be the
        // most recent commit. When the roots coincide although something else was committed in
        // between (no-op commits) the outcome is unspecified: skip.
        if let Some(p) = self.ovs[i].parent {
            if self.commit_marker != Some(p) {
                return;
            }
        }
        let nb = self.rng.chance(1, 3);
        let ctx = format!(
            "op{} overlay-commit idx={} depth={} nonblocking={nb}",
            self.rep.op_index, i, self.ovs[i].depth
        );
        self.rep.t(ctx.clone());
        let ov = self.ovs[i].ov.take().unwrap();
        let db = self.sut.db.as_ref().unwrap();
        let res = if nb {
            guard(|| match ov.try_commit_nonblocking(db) {
                Ok(None) => Ok(()),
                Ok(Some(back)) => back.commit(db).map_err(|e| format!("after spurious deferral: {e:#}")),
                Err(e) => Err(format!("{e:#}")),
            })
        } else {
            guard(|| ov.commit(db).map_err(|e| format!("{e:#}")))
        };
        self.rep.eval("C11", true);
        match res {
            Ok(Ok(())) => {
                let st = self.ovs[i].state.clone();
                self.ovs[i].status = OvStatus::Committed;
                self.sut.model.commit_state(st);
                self.commits += 1;
                self.epoch += 1;
                self.commit_marker = Some(i);
                // C11: the store now equals the model in which the batch was committed directly
                let keys: Vec<Key> = self.sut.probe_keys(&mut self.rng, &[], 32, 8);
                let mut sub = self.rep.sub();
                sub.op_index = self.rep.op_index;
                self.sut.post_commit_checks(&mut sub, &mut self.rng, &keys, &ctx, true, self.commits % 4 == 0);
                for f in &sub.findings {
                    self.rep.fail("C11", &format!("after-overlay-commit:{}", f.sig), f.detail.clone());
                }
                self.rep.merge(sub);
                self.rep.feat("overlay_commits", 1);
                self.quiescent("overlay-commit");
            }
            Ok(Err(e)) if self.ended_by_exhaustion(&e) => {
                self.ovs[i].status = OvStatus::Gone;
            }
            Ok(Err(e)) => {
                self.ovs[i].status = OvStatus::Gone;
                self.rep.fail(
                    "C11",
                    &format!("valid-overlay-commit-refused:{}", msg_class(&e)),
                    format!("{ctx}: {e}"),
                );
            }
            Err(p) => {
                self.rep.fail("C11", "overlay-commit-panic", format!("{ctx}: {p}"));
                self.sut.dead = true;
            }
        }
    }

    /// Commit an overlay that must be refused: uncommitted parent, or stale base.
    fn ov_commit_invalid(&mut self, live: &[usize]) {
        let cands: Vec<(usize, &'static str)> = live
            .iter()
            .copied()
            .filter_map(|i| {
                let e = &self.ovs[i];
                match e.parent {
                    Some(p) if self.ovs[p].status != OvStatus::Committed => Some((i, "parent-uncommitted")),
                    _ if e.base_root != self.sut.model.root() => Some((i, "stale-base")),
                    _ => None,
                }
            })
            .collect();
        if cands.is_empty() {
            return;
        }
        let (i, why) = *self.rng.pick(&cands);
        let nb = self.rng.chance(1, 2);
        let ctx = format!(
            "op{} overlay-commit-invalid idx={} why={why} nonblocking={nb}",
            self.rep.op_index, i
        );
        self.rep.t(ctx.clone());
        let ov = self.ovs[i].ov.take().unwrap();
        self.ovs[i].status = OvStatus::Gone; // consumed either way
        let db = self.sut.db.as_ref().unwrap();
        let before_root = db.root().into_inner();
        let before_seqn = db.sync_seqn();
        let res = if nb {
            guard(|| ov.try_commit_nonblocking(db).map(|o| o.is_some()).map_err(|e| format!("{e:#}")))
        } else {
            guard(|| ov.commit(db).map(|_| false).map_err(|e| format!("{e:#}")))
        };
        let prop = if why == "stale-base" { "C12" } else { "C11" };
        self.rep.eval(prop, true);
        match res {
            Ok(Err(_)) => {}
            Ok(Ok(true)) => {
                // handed back although no session is alive: not an effect, tolerated.
                self.rep.feat("spurious_deferral", 1);
            }
            Ok(Ok(false)) => {
                self.rep.fail(
                    prop,
                    &format!("invalid-overlay-commit-accepted:{why}"),
                    format!("{ctx}: commit was accepted"),
                );
                self.sut.dead = true;
                return;
            }
            Err(p) => {
                self.rep.fail(prop, "overlay-commit-panic", format!("{ctx}: {p}"));
                self.sut.dead = true;
                return;
            }
        }
        self.rejections_seen = true;
        self.check_no_effect(prop, before_root, before_seqn, &ctx);
        self.rep.feat("refused_overlay_commits", 1);
    }

    fn check_no_effect(&mut self, prop: &str, before_root: Hash, before_seqn: u32, ctx: &str) {
        let db = self.sut.db.as_ref().unwrap();
        if db.root().into_inner() != before_root {
            self.rep.fail(prop, "refused-commit-changed-root", format!("{ctx}: root changed"));
        }
        if db.sync_seqn() != before_seqn {
            self.rep.fail(prop, "refused-commit-changed-seqn", format!("{ctx}: sync_seqn changed"));
        }
        if db.is_poisoned() {
            self.rep.fail(prop, "refused-commit-poisoned", format!("{ctx}: handle poisoned"));
        }
        let keys = self.sut.probe_keys(&mut self.rng, &[], 24, 6);
        let mut sub = self.rep.sub();
        sub.op_index = self.rep.op_index;
        self.sut.check_reads(&mut sub, &keys, ctx, true);
        self.sut.check_root(&mut sub, ctx, true);
        for f in &sub.findings {
            self.rep.fail(prop, &format!("refused-commit-effect:{}", f.sig), f.detail.clone());
        }
    }

    /// A changeset whose base state was left and re-entered is about to be committed. NOMT accepts
    /// it by root equality although its page/bucket assumptions are stale (known finding); every
    /// later finding of this case is labelled accordingly.
    fn note_aba(&mut self) {
        self.rep.feat("aba_commits", 1);
        self.rep.sig_prefix = "after-aba-commit:".to_string();
        self.rep.t("  (ABA: base state was left and re-entered before this commit)".into());
    }

    fn ov_drop(&mut self, live: &[usize]) {
        let i = *self.rng.pick(live);
        self.rep.t(format!("op{} overlay-drop idx={}", self.rep.op_index, i));
        let db = self.sut.db.as_ref().unwrap();
        let before_root = db.root().into_inner();
        let before_seqn = db.sync_seqn();
        self.ovs[i].ov = None;
        self.ovs[i].status = OvStatus::Gone;
        self.rep.eval("C11", true);
        let ctx = format!("op{} after overlay-drop", self.rep.op_index);
        self.check_no_effect("C11", before_root, before_seqn, &ctx);
        // descendants of a dropped overlay can no longer be built upon
        let kids: Vec<usize> = (0..self.ovs.len())
            .filter(|&j| self.ovs[j].status == OvStatus::Live && self.ovs[j].parent == Some(i))
            .collect();
        for j in kids {
            let ov = self.ovs[j].ov.as_ref().unwrap();
            self.rep.eval("C11", true);
            if SessionParams::default().overlay([ov]).is_ok() {
                self.rep.fail(
                    "C11",
                    "incomplete-chain-accepted:parent-dropped",
                    format!("{ctx}: chain [child] accepted although its parent {i} was dropped uncommitted"),
                );
            }
        }
    }

    /// Chains that must be refused.
    fn ov_bad_chain(&mut self, live: &[usize]) {
        let ctx = format!("op{} overlay-bad-chain", self.rep.op_index);
        self.rep.t(ctx.clone());
        // (a) incomplete: a live overlay whose live parent is omitted
        for &i in live {
            let Some(chain) = self.live_chain(i) else { continue };
            if chain.len() >= 2 {
                self.rep.eval("C11", true);
                let only = [self.ovs[i].ov.as_ref().unwrap()];
                if SessionParams::default().overlay(only).is_ok() {
                    self.rep.fail(
                        "C11",
                        "incomplete-chain-accepted:ancestor-omitted",
                        format!("{ctx}: chain [{}] accepted although ancestors {:?} are live and uncommitted", i, &chain[1..]),
                    );
                }
                // (b) wrong order: ancestors ascending
                if chain.len() >= 2 {
                    let mut rev: Vec<&Overlay> = chain.iter().map(|&c| self.ovs[c].ov.as_ref().unwrap()).collect();
                    rev.reverse();
                    self.rep.eval("C11", true);
                    if SessionParams::default().overlay(rev).is_ok() {
                        self.rep.fail(
                            "C11",
                            "non-ancestral-chain-accepted:reversed",
                            format!("{ctx}: reversed chain of {} accepted", chain.len()),
                        );
                    }
                }
                // (c) non-ancestor in the middle: replace the parent by an unrelated live overlay
                let others: Vec<usize> = live.iter().copied().filter(|o| !chain.contains(o)).collect();
                if let Some(&o) = others.first() {
                    let mut refs: Vec<&Overlay> = chain.iter().map(|&c| self.ovs[c].ov.as_ref().unwrap()).collect();
                    refs[1] = self.ovs[o].ov.as_ref().unwrap();
                    self.rep.eval("C11", true);
                    if SessionParams::default().overlay(refs).is_ok() {
                        self.rep.fail(
                            "C11",
                            "non-ancestral-chain-accepted:foreign-parent",
                            format!("{ctx}: chain with foreign overlay {o} in place of the parent accepted"),
                        );
                    }
                }
                break;
            }
        }
        // (d) a live overlay whose uncommitted ancestor is gone
        for &i in live {
            if self.live_chain(i).is_none() {
                // supply every live member we still have, newest first
                let mut refs = Vec::new();
                let mut cur = Some(i);
                while let Some(c) = cur {
                    if self.ovs[c].status == OvStatus::Live {
                        refs.push(self.ovs[c].ov.as_ref().unwrap());
                    } else {
                        break;
                    }
                    cur = self.ovs[c].parent;
                }
                self.rep.eval("C11", true);
                if SessionParams::default().overlay(refs).is_ok() {
                    self.rep.fail(
                        "C11",
                        "incomplete-chain-accepted:ancestor-gone",
                        format!("{ctx}: chain ending in {i} accepted although an uncommitted ancestor no longer exists"),
                    );
                }
                break;
            }
        }
    }

    // ------------------------------------------------------------------ contests (C12)

    fn op_contest(&mut self) {
        self.drop_all_overlays();
        let m = self.rng.range(2, 4) as usize;
        let view = self.sut.model.kv.clone();
        let base_root = self.sut.model.root();
        let ctx0 = format!("op{} contest m={m}", self.rep.op_index);
        self.rep.t(ctx0.clone());
        // shared hot keys so that competitors overlap
        let mut hot: Vec<Key> = Vec::new();
        for _ in 0..self.rng.range(1, 6) {
            hot.push(self.pool.pick(&mut self.rng));
        }
        enum Cs<K: HashKind> {
            Sess(Prepared<K>),
            Ov(Overlay, Kv, Hash),
        }
        let mut entries: Vec<(Cs<K>, Batch)> = Vec::new();
        for c in 0..m {
            let bp = self.batch_params();
            let st = self.next_stamp();
            let mut batch = gen_batch(&mut self.rng, &self.pool, &view, &bp, st);
            let mut mm: std::collections::BTreeMap<Key, Access> = batch.into_iter().collect();
            for (j, k) in hot.iter().enumerate() {
                mm.insert(*k, Access::Write(Some(crate::gen::stamped_value(st + 1000 + j as u64, 8 + c))));
            }
            batch = mm.into_iter().collect();
            let ctx = format!("{ctx0} prepare#{c} {}", Self::describe_batch(&batch));
            let Some(prep) = self
                .sut
                .prepare(self.rep, &mut self.hint_rng, &[], &view, batch.clone(), false, 0, &ctx)
            else {
                self.sut.dead = true;
                return;
            };
            if self.rng.chance(1, 3) {
                let st = prep.new_state.clone();
                let r = prep.new_root;
                entries.push((Cs::Ov(prep.fin.into_overlay(), st, r), batch));
            } else {
                entries.push((Cs::Sess(prep), batch));
            }
        }
        self.rng.shuffle(&mut entries);
        let rollback_between = self.sut.model.rollback_enabled && self.rng.chance(1, 5);
        let prepared_epoch = self.epoch;
        for (idx, (cs, batch)) in entries.into_iter().enumerate() {
            if self.sut.dead {
                return;
            }
            if idx == 1 && rollback_between && self.sut.model.guaranteed() >= 1 {
                self.rollback_ok(1, "C12");
                if self.sut.dead {
                    return;
                }
            }
            let valid = self.sut.model.root() == base_root;
            if valid && self.epoch != prepared_epoch {
                if !self.p.allow_aba {
                    // would be accepted by root equality on a re-entered base: not generated here
                    continue;
                }
                self.note_aba();
            }
            let nb = self.rng.chance(1, 2);
            let with_reader = nb && self.rng.chance(1, 3);
            let kind = match &cs {
                Cs::Sess(_) => "session",
                Cs::Ov(..) => "overlay",
            };
            let ctx = format!(
                "{ctx0} attempt#{idx} kind={kind} nonblocking={nb} live_reader={with_reader} expected_valid={valid}"
            );
            self.rep.t(ctx.clone());
            let db = self.sut.db.as_ref().unwrap();
            let before_root = db.root().into_inner();
            let before_seqn = db.sync_seqn();
            let overlap = batch_writes(&batch).iter().any(|(k, _)| hot.contains(k));
            let nontrivial = self.sut.model.rollback_enabled && overlap;

            // (1) deferral: a live reader makes a non-blocking attempt hand the changeset back.
            let mut cs = cs;
            if with_reader {
                let reader = db.begin_session(SessionParams::default());
                self.rep.eval("C12", nontrivial);
                let back: Option<Cs<K>> = match cs {
                    Cs::Sess(p) => {
                        let Prepared { fin, batch, base_root, new_state, new_root, .. } = p;
                        match guard(|| fin.try_commit_nonblocking(db)) {
                            Ok(Ok(Some(fin))) => Some(Cs::Sess(Prepared { fin, batch, base_root, new_state, new_root, _k: std::marker::PhantomData })),
                            Ok(Ok(None)) => {
                                self.rep.fail("C12", "nonblocking-committed-with-live-session", format!("{ctx}: committed although a session is alive"));
                                self.sut.dead = true;
                                None
                            }
                            Ok(Err(e)) => {
                                // an error is only acceptable for a stale changeset
                                if valid && !self.ended_by_exhaustion(&format!("{e:#}")) {
                                    self.rep.fail("C12", "nonblocking-error-with-live-session", format!("{ctx}: {e:#}"));
                                }
                                None
                            }
                            Err(p) => {
                                self.rep.fail("C12", "commit-panic", format!("{ctx}: {p}"));
                                self.sut.dead = true;
                                None
                            }
                        }
                    }
                    Cs::Ov(ov, st, r) => match guard(|| ov.try_commit_nonblocking(db)) {
                        Ok(Ok(Some(ov))) => Some(Cs::Ov(ov, st, r)),
                        Ok(Ok(None)) => {
                            self.rep.fail("C12", "nonblocking-committed-with-live-session", format!("{ctx}: committed although a session is alive"));
                            self.sut.dead = true;
                            None
                        }
                        Ok(Err(e)) => {
                            if valid && !self.ended_by_exhaustion(&format!("{e:#}")) {
                                self.rep.fail("C12", "nonblocking-error-with-live-session", format!("{ctx}: {e:#}"));
                            }
                            None
                        }
                        Err(p) => {
                            self.rep.fail("C12", "commit-panic", format!("{ctx}: {p}"));
                            self.sut.dead = true;
                            None
                        }
                    },
                };
                // the reader still sees the old state
                let keys: Vec<Key> = hot.clone();
                for k in &keys {
                    let want = self.sut.model.kv.get(k).map(|v| v.bytes.clone());
                    if let Ok(Ok(got)) = guard(|| reader.read(*k)) {
                        if got != want {
                            self.rep.fail("C12", "deferred-commit-visible", format!("{ctx}: reader sees a deferred commit's write"));
                        }
                    }
                }
                drop(reader);
                if self.sut.dead {
                    return;
                }
                self.rejections_seen = true;
                self.check_no_effect("C12", before_root, before_seqn, &format!("{ctx} (deferred)"));
                self.rep.feat("deferred_commits", 1);
                match back {
                    Some(b) => cs = b,
                    None => continue,
                }
            }

            // (2) the real attempt
            self.rep.eval("C12", nontrivial || !valid);
            let db = self.sut.db.as_ref().unwrap();
            let (res, new_state): (Result<Result<bool, String>, String>, Kv) = match cs {
                Cs::Sess(p) => {
                    let Prepared { fin, new_state, .. } = p;
                    let r = if nb {
                        guard(|| fin.try_commit_nonblocking(db).map(|o| o.is_some()).map_err(|e| format!("{e:#}")))
                    } else {
                        guard(|| fin.commit(db).map(|_| false).map_err(|e| format!("{e:#}")))
                    };
                    (r, new_state)
                }
                Cs::Ov(ov, st, _r) => {
                    let r = if nb {
                        guard(|| ov.try_commit_nonblocking(db).map(|o| o.is_some()).map_err(|e| format!("{e:#}")))
                    } else {
                        guard(|| ov.commit(db).map(|_| false).map_err(|e| format!("{e:#}")))
                    };
                    (r, st)
                }
            };
            match (res, valid) {
                (Ok(Ok(false)), true) => {
                    self.sut.model.commit_state(new_state);
                    self.commits += 1;
                    self.epoch += 1;
                    self.commit_marker = None;
                    let keys: Vec<Key> = batch.iter().map(|(k, _)| *k).collect();
                    let mut sub = self.rep.sub();
                    sub.op_index = self.rep.op_index;
                    self.sut.post_commit_checks(&mut sub, &mut self.rng, &keys, &ctx, true, false);
                    for f in &sub.findings {
                        self.rep.fail("C12", &format!("winner-state:{}", f.sig), f.detail.clone());
                    }
                    self.rep.feat("contest_winners", 1);
                    self.quiescent("contest-winner");
                }
                (Ok(Ok(false)), false) => {
                    self.rep.fail(
                        "C12",
                        "stale-commit-accepted",
                        format!("{ctx}: changeset prepared on {} accepted while the root is {}", hex8(&base_root), hex8(&before_root)),
                    );
                    self.sut.dead = true;
                }
                (Ok(Ok(true)), _) => {
                    // handed back without a live session: no effect expected; tolerated.
                    self.rep.feat("spurious_deferral", 1);
                    self.check_no_effect("C12", before_root, before_seqn, &ctx);
                }
                (Ok(Err(e)), true) if e.contains("bucket exhaustion") => {
                    // a full hash table is a legitimate refusal; the history ends here
                    self.rep.feat("histories_ended_by_bucket_exhaustion", 1);
                    self.sut.dead = true;
                }
                (Ok(Err(e)), true) => {
                    self.rep.fail(
                        "C12",
                        &format!("valid-commit-rejected:{}", msg_class(&e)),
                        format!("{ctx}: {e}"),
                    );
                    self.sut.dead = true;
                }
                (Ok(Err(_)), false) => {
                    self.rejections_seen = true;
                    self.check_no_effect("C12", before_root, before_seqn, &ctx);
                    self.rep.feat("rejected_commits", 1);
                    self.quiescent("contest-loser");
                }
                (Err(p), _) => {
                    self.rep.fail("C12", "commit-panic", format!("{ctx}: {p}"));
                    self.sut.dead = true;
                }
            }
        }
    }
}



/// Run the independent decoder on the (quiescent) directory of `sut` and compare with the model.
pub fn decode_check<K: HashKind>(sut: &Sut<K>, rep: &mut Rep, what: &str) {
    let model_items: std::collections::BTreeMap<Key, (usize, Hash)> =
        sut.model.kv.iter().map(|(k, v)| (*k, (v.bytes.len(), v.hash))).collect();
    let trie = sut.full_trie();
    let d = crate::decode::decode_all::<K>(&sut.dir, &model_items, &trie);
    let nontrivial = d.feats.get("max_branch_nodes").copied().unwrap_or(0) >= 2
        || d.feats.get("overflow_values_decoded").copied().unwrap_or(0) >= 1
        || d.ht_tombstones >= 1
        || d.feats.get("max_elided_children").copied().unwrap_or(0) >= 1;
    rep.eval("C16", nontrivial);
    let freed_or_reused = d.ln_accounting.1 + d.ln_accounting.2 + d.bbn_accounting.1 > 0;
    rep.eval("C19", freed_or_reused);
    let ctx = format!(
        "op{} {what} (seqn {}, {} keys, ln live/free/list/total {:?}, bbn {:?}, ht full {} tomb {})",
        rep.op_index,
        d.meta.sync_seqn,
        model_items.len(),
        d.ln_accounting,
        d.bbn_accounting,
        d.ht_full,
        d.ht_tombstones
    );
    for is in &d.issues {
        let (prop, sig) = if is.starts_with("LEAK") {
            ("C19", format!("leak:{}", if is.contains(" ln") { "ln" } else { "bbn" }))
        } else {
            ("C16", format!("decode:{}", crate::sut::msg_class(is).chars().take(60).collect::<String>()))
        };
        rep.fail(prop, &sig, format!("{ctx}: {is}"));
    }
    if d.issues.iter().any(|is| !is.starts_with("LEAK")) {
        // cross-check through the API: a structurally wrong tree usually also serves wrong reads
        let all: Vec<Key> = sut.model.kv.keys().copied().collect();
        sut.check_reads(rep, &all, &format!("{ctx} full sweep after decoder issues"), true);
    }
    // meta vs handle
    if d.meta.sync_seqn != sut.model.seqn {
        rep.fail("C16", "decode:meta-seqn", format!("{ctx}: meta sync_seqn {} != model {}", d.meta.sync_seqn, sut.model.seqn));
    }
    // C19: reported occupancy == full buckets on disk == distinct stored pages
    let occ = sut.db().hash_table_utilization().occupied as u64;
    if occ != d.ht_full || d.ht_full != d.ht_distinct_pages {
        rep.fail(
            "C19",
            "occupancy-mismatch",
            format!(
                "{ctx}: hash_table_utilization().occupied = {occ}, full buckets in the on-disk meta map = {}, distinct stored merkle pages = {}",
                d.ht_full, d.ht_distinct_pages
            ),
        );
    }
    if model_items.is_empty() && occ != 0 {
        rep.fail("C19", "occupancy-nonzero-on-empty-store", format!("{ctx}: occupied = {occ} on an empty store"));
    }
    for (k, v) in &d.feats {
        if k.starts_with("max_") {
            rep.feat_max(k, *v);
        } else {
            rep.feat(k, *v);
        }
    }
    rep.feat("decodes", 1);
}

//! E-CONC (C15): reader sessions, blocking / non-blocking committers, overlay committers and a
//! rollbacker run concurrently against one handle; every call and return is logged at the client
//! boundary with one global tick counter, and the history is checked offline.

use crate::cfg::Cfg;
use crate::io_rec::{recorder, Mode};
use crate::model::{kv_root, mk_val, Kv};
use crate::sut::{guard, Db};
use bitvec::prelude::*;
use nomt::trie::LeafData;
use nomt::{KeyReadWrite, SessionParams};
use nvcore::reftrie::{HashKind, Key, B3};
use nvcore::report::{hex8, Rep};
use nvcore::rng::{derive, Rng};
use parking_lot::Mutex;
use serde_json::json;
use std::collections::{BTreeMap, HashMap};
use std::path::Path;
use std::sync::atomic::{AtomicBool, AtomicU64, Ordering};
use std::sync::Arc;
use std::time::{Duration, Instant};

type K = B3;

static TICK: AtomicU64 = AtomicU64::new(1);
fn tick() -> u64 {
    TICK.fetch_add(1, Ordering::SeqCst)
}

#[derive(Clone, Debug)]
struct SessionRec {
    thread: usize,
    begin_call: u64,
    begin_ret: u64,
    drop_call: u64,
    drop_ret: u64,
    /// versions observed for hot keys (key index, version)
    reads: Vec<(usize, Option<u64>)>,
    proofs_ok: u32,
    proofs_bad: Vec<String>,
}

#[derive(Clone, Debug, PartialEq)]
enum Outcome {
    Committed,
    Deferred,
    Rejected(String),
    Failed(String),
}

#[derive(Clone, Debug)]
struct WriteRec {
    thread: usize,
    kind: &'static str, // "commit", "try_commit", "overlay_commit", "overlay_try_commit", "rollback"
    call: u64,
    ret: u64,
    base: u64,    // version the changeset was prepared on (0 for rollback)
    version: u64, // version it writes (rollback: number of commits undone)
    cold: Vec<(Key, Option<Vec<u8>>)>,
    outcome: Outcome,
}

fn version_value(v: u64, i: usize) -> Vec<u8> {
    let mut out = v.to_le_bytes().to_vec();
    out.extend_from_slice(&(i as u32).to_le_bytes());
    out.resize(12 + (v % 40) as usize, 0xee);
    out
}

fn version_of(val: &Option<Vec<u8>>) -> Option<u64> {
    val.as_ref().map(|b| if b.len() >= 8 { u64::from_le_bytes(b[..8].try_into().unwrap()) } else { u64::MAX })
}

struct Shared {
    db: Db<K>,
    hot: Vec<Key>,
    cold_pool: Vec<Key>,
    stop: AtomicBool,
    next_version: AtomicU64,
    sessions: Mutex<Vec<SessionRec>>,
    writes: Mutex<Vec<WriteRec>>,
}

fn reader(sh: Arc<Shared>, tid: usize, seed: u64) {
    let mut rng = Rng::new(seed);
    while !sh.stop.load(Ordering::Relaxed) {
        let begin_call = tick();
        let sess = sh.db.begin_session(SessionParams::default());
        let begin_ret = tick();
        let mut rec = SessionRec {
            thread: tid,
            begin_call,
            begin_ret,
            drop_call: 0,
            drop_ret: 0,
            reads: Vec::new(),
            proofs_ok: 0,
            proofs_bad: Vec::new(),
        };
        let n_reads = rng.range(2, 12);
        // some reads from a second thread sharing the session
        std::thread::scope(|sc| {
            let h = sc.spawn(|| {
                let mut out = Vec::new();
                for (i, k) in sh.hot.iter().enumerate().take(3) {
                    if let Ok(v) = sess.read(*k) {
                        out.push((i, version_of(&v)));
                    }
                }
                out
            });
            for _ in 0..n_reads {
                let i = rng.usize_below(sh.hot.len());
                if let Ok(v) = sess.read(sh.hot[i]) {
                    rec.reads.push((i, version_of(&v)));
                }
                if rng.chance(1, 3) {
                    std::thread::sleep(Duration::from_micros(rng.range(0, 3000)));
                }
            }
            if let Ok(extra) = h.join() {
                rec.reads.extend(extra);
            }
        });
        // a proof of one hot key: must verify against the session's root and confirm the value read
        let i = rng.usize_below(sh.hot.len());
        let k = sh.hot[i];
        if let (Ok(Ok(proof)), Ok(val)) = (guard(|| sess.prove(k)), sess.read(k)) {
            let root = sess.prev_root().into_inner();
            match proof.verify::<<K as HashKind>::Nomt>(k.view_bits::<Msb0>(), root) {
                Ok(v) => {
                    let ok = match &val {
                        Some(b) => matches!(v.confirm_value(&LeafData { key_path: k, value_hash: K::h(b) }), Ok(true)),
                        None => matches!(v.confirm_nonexistence(&k), Ok(true)),
                    };
                    if ok {
                        rec.proofs_ok += 1;
                    } else {
                        rec.proofs_bad.push(format!("proof of hot key {i} does not confirm the value the same session read"));
                    }
                    rec.reads.push((i, version_of(&val)));
                }
                Err(e) => rec.proofs_bad.push(format!("proof of hot key {i} does not verify against the session's root: {e:?}")),
            }
        }
        std::thread::sleep(Duration::from_micros(rng.range(0, 8000)));
        rec.drop_call = tick();
        drop(sess);
        rec.drop_ret = tick();
        sh.sessions.lock().push(rec);
        if rng.chance(1, 2) {
            std::thread::sleep(Duration::from_micros(rng.range(0, 2000)));
        }
    }
}

fn writer(sh: Arc<Shared>, tid: usize, seed: u64, allow_rollback: bool) {
    let mut rng = Rng::new(seed);
    while !sh.stop.load(Ordering::Relaxed) {
        if allow_rollback && rng.chance(1, 8) {
            let n = rng.range(1, 2) as usize;
            let call = tick();
            let r = guard(|| sh.db.rollback(n));
            let ret = tick();
            let outcome = match r {
                Ok(Ok(())) => Outcome::Committed,
                Ok(Err(e)) => Outcome::Rejected(format!("{e:#}")),
                Err(p) => Outcome::Failed(p),
            };
            sh.writes.lock().push(WriteRec { thread: tid, kind: "rollback", call, ret, base: 0, version: n as u64, cold: vec![], outcome });
            continue;
        }
        // prepare a changeset
        let sess = sh.db.begin_session(SessionParams::default());
        let base = version_of(&sess.read(sh.hot[0]).unwrap_or(None)).unwrap_or(0);
        let version = sh.next_version.fetch_add(1, Ordering::SeqCst);
        let mut writes: BTreeMap<Key, Option<Vec<u8>>> = BTreeMap::new();
        for (i, k) in sh.hot.iter().enumerate() {
            writes.insert(*k, Some(version_value(version, i)));
        }
        let mut cold = Vec::new();
        for _ in 0..rng.range(0, 6) {
            let k = *rng.pick(&sh.cold_pool);
            let v = if rng.chance(1, 4) { None } else { Some(version_value(version, 99)) };
            cold.push((k, v.clone()));
            writes.insert(k, v);
        }
        let actuals: Vec<(Key, KeyReadWrite)> = writes.iter().map(|(k, v)| (*k, KeyReadWrite::Write(v.clone()))).collect();
        if rng.chance(1, 3) {
            std::thread::sleep(Duration::from_micros(rng.range(0, 3000)));
        }
        let Ok(fin) = sess.finish(actuals) else { continue };
        let flavour = rng.below(4);
        let kind = ["commit", "try_commit", "overlay_commit", "overlay_try_commit"][flavour as usize];
        let mut attempts = 0;
        enum Cs {
            S(nomt::FinishedSession),
            O(nomt::Overlay),
        }
        let mut cs = if flavour >= 2 { Cs::O(fin.into_overlay()) } else { Cs::S(fin) };
        loop {
            attempts += 1;
            let call = tick();
            let (outcome, back): (Outcome, Option<Cs>) = match cs {
                Cs::S(f) => {
                    if flavour == 0 {
                        match guard(|| f.commit(&sh.db)) {
                            Ok(Ok(())) => (Outcome::Committed, None),
                            Ok(Err(e)) => (Outcome::Rejected(format!("{e:#}")), None),
                            Err(p) => (Outcome::Failed(p), None),
                        }
                    } else {
                        match guard(|| f.try_commit_nonblocking(&sh.db)) {
                            Ok(Ok(None)) => (Outcome::Committed, None),
                            Ok(Ok(Some(b))) => (Outcome::Deferred, Some(Cs::S(b))),
                            Ok(Err(e)) => (Outcome::Rejected(format!("{e:#}")), None),
                            Err(p) => (Outcome::Failed(p), None),
                        }
                    }
                }
                Cs::O(o) => {
                    if flavour == 2 {
                        match guard(|| o.commit(&sh.db)) {
                            Ok(Ok(())) => (Outcome::Committed, None),
                            Ok(Err(e)) => (Outcome::Rejected(format!("{e:#}")), None),
                            Err(p) => (Outcome::Failed(p), None),
                        }
                    } else {
                        match guard(|| o.try_commit_nonblocking(&sh.db)) {
                            Ok(Ok(None)) => (Outcome::Committed, None),
                            Ok(Ok(Some(b))) => (Outcome::Deferred, Some(Cs::O(b))),
                            Ok(Err(e)) => (Outcome::Rejected(format!("{e:#}")), None),
                            Err(p) => (Outcome::Failed(p), None),
                        }
                    }
                }
            };
            let ret = tick();
            sh.writes.lock().push(WriteRec { thread: tid, kind, call, ret, base, version, cold: cold.clone(), outcome: outcome.clone() });
            match back {
                Some(b) if attempts < 6 && !sh.stop.load(Ordering::Relaxed) => {
                    cs = b;
                    std::thread::sleep(Duration::from_micros(rng.range(100, 4000)));
                }
                _ => break,
            }
        }
    }
}

pub fn run_case(tier: &str, seed: u64, scratch: &Path, rep: &mut Rep) {
    let mut rng = Rng::new(derive(seed, &[15]));
    let _ = std::fs::remove_dir_all(scratch);
    std::fs::create_dir_all(scratch).unwrap();
    let dir = scratch.join("db");
    let mut cfg = Cfg::default_small();
    cfg.buckets = 2048;
    cfg.commit_concurrency = *rng.pick(&[1usize, 2, 4, 8]);
    cfg.io_workers = *rng.pick(&[1usize, 3]);
    cfg.rollback = rng.chance(1, 2);
    cfg.max_log = 100;
    cfg.warm_up = rng.chance(1, 3);
    let rec = recorder();
    rec.start(&dir, Mode::Off);
    // schedule perturbation: random delays at async completions and yield points
    let delay = *rng.pick(&[0u64, 0, 200, 1000]);
    rec.set_delay(delay, seed);
    let Ok(db) = Db::<K>::open(cfg.options(&dir)) else {
        rep.inconclusive.push("cannot create store".into());
        return;
    };
    let n_hot = rng.range(4, 16) as usize;
    let hot: Vec<Key> = (0..n_hot).map(|_| rng.key()).collect();
    let cold_pool: Vec<Key> = (0..40).map(|_| rng.key()).collect();
    // initial state: version 1 on every hot key
    {
        let sess = db.begin_session(SessionParams::default());
        let mut w: BTreeMap<Key, Option<Vec<u8>>> = BTreeMap::new();
        for (i, k) in hot.iter().enumerate() {
            w.insert(*k, Some(version_value(1, i)));
        }
        let actuals = w.iter().map(|(k, v)| (*k, KeyReadWrite::Write(v.clone()))).collect();
        if sess.finish(actuals).and_then(|f| f.commit(&db)).is_err() {
            rep.inconclusive.push("initial commit failed".into());
            return;
        }
    }
    let sh = Arc::new(Shared {
        db,
        hot: hot.clone(),
        cold_pool,
        stop: AtomicBool::new(false),
        next_version: AtomicU64::new(2),
        sessions: Mutex::new(Vec::new()),
        writes: Mutex::new(Vec::new()),
    });
    let n_readers = rng.range(1, 4) as usize;
    let n_writers = rng.range(1, 3) as usize;
    let run_ms = if tier == "thorough" { rng.range(400, 2500) } else { rng.range(200, 800) };
    rep.sample(
        "_case",
        json!({"engine": "E-CONC", "seed": seed, "cfg": cfg.to_json(), "readers": n_readers, "writers": n_writers, "hot_keys": n_hot, "run_ms": run_ms, "completion_delay_us": delay}),
    );
    let mut handles = Vec::new();
    for t in 0..n_readers {
        let s = sh.clone();
        let sd = derive(seed, &[100 + t as u64]);
        handles.push(std::thread::spawn(move || reader(s, t, sd)));
    }
    for t in 0..n_writers {
        let s = sh.clone();
        let sd = derive(seed, &[200 + t as u64]);
        let rb = cfg.rollback;
        handles.push(std::thread::spawn(move || writer(s, 10 + t, sd, rb)));
    }
    std::thread::sleep(Duration::from_millis(run_ms));
    sh.stop.store(true, Ordering::SeqCst);
    // bounded progress: once all sessions are dropped every call returns. A thread that does not
    // come back leaves this case hanging; the runner's stall watchdog samples it with gdb.
    let t0 = Instant::now();
    for h in handles {
        let _ = h.join();
    }
    rep.feat_max("max_join_ms", t0.elapsed().as_millis() as u64);
    rec.set_delay(0, 0);
    let sessions = std::mem::take(&mut *sh.sessions.lock());
    let writes = std::mem::take(&mut *sh.writes.lock());
    check_history(rep, &sh, &sessions, &writes, &cfg);
    drop(sh);
    let _ = std::fs::remove_dir_all(scratch);
}

fn check_history(rep: &mut Rep, sh: &Shared, sessions: &[SessionRec], writes: &[WriteRec], cfg: &Cfg) {
    let committed: Vec<&WriteRec> = writes.iter().filter(|w| w.outcome == Outcome::Committed).collect();
    let deferred = writes.iter().filter(|w| w.outcome == Outcome::Deferred).count();
    let rejected = writes.iter().filter(|w| matches!(w.outcome, Outcome::Rejected(_))).count();
    let overlap = committed.iter().any(|w| sessions.iter().any(|s| s.begin_call < w.ret && s.drop_ret > w.call));
    let nontrivial = overlap && rejected + deferred >= 1;
    rep.eval("C15", nontrivial);
    rep.feat("sessions", sessions.len() as u64);
    rep.feat("write_attempts", writes.len() as u64);
    rep.feat("commits_won", committed.iter().filter(|w| w.kind != "rollback").count() as u64);
    rep.feat("rollbacks_done", committed.iter().filter(|w| w.kind == "rollback").count() as u64);
    rep.feat("deferred", deferred as u64);
    rep.feat("rejected", rejected as u64);
    // distinct interleaving signature: order of (thread, kind) of all call/return events
    {
        let mut evs: Vec<(u64, usize, u8)> = Vec::new();
        for s in sessions {
            evs.push((s.begin_call, s.thread, 0));
            evs.push((s.drop_ret, s.thread, 1));
        }
        for w in writes {
            evs.push((w.call, w.thread, 2));
            evs.push((w.ret, w.thread, 3));
        }
        evs.sort();
        let mut h = 0u64;
        for (_, t, k) in evs {
            h = derive(h, &[t as u64, k as u64]);
        }
        rep.eval_keyed("C15", nontrivial, h);
    }
    for w in writes {
        if let Outcome::Failed(p) = &w.outcome {
            rep.fail("C15", &format!("panic-in-{}", w.kind), format!("{} panicked: {p}", w.kind));
        }
    }
    // (1a) one version per session; proofs consistent
    for s in sessions {
        rep.eval("C15", nontrivial);
        let mut vs: Vec<Option<u64>> = s.reads.iter().map(|r| r.1).collect();
        vs.sort();
        vs.dedup();
        if vs.len() > 1 {
            rep.fail(
                "C15",
                "session-saw-two-states",
                format!("one session (thread {}, ticks {}..{}) observed hot-key versions {:?}", s.thread, s.begin_call, s.drop_ret, vs),
            );
        }
        for b in &s.proofs_bad {
            rep.fail("C15", "session-proof-inconsistent", format!("session on thread {}: {b}", s.thread));
        }
        // (1c) no successful write entirely inside the session's lifetime
        for w in &committed {
            if w.call > s.begin_ret && w.ret < s.drop_call {
                rep.fail(
                    "C15",
                    &format!("write-inside-live-session:{}", w.kind),
                    format!("{} [{}..{}] completed entirely while a session (thread {}, alive {}..{}) existed", w.kind, w.call, w.ret, s.thread, s.begin_ret, s.drop_call),
                );
            }
        }
    }
    // (2) deferral needs a reason
    for w in writes.iter().filter(|w| w.outcome == Outcome::Deferred) {
        rep.eval("C15", nontrivial);
        let session_overlap = sessions.iter().any(|s| s.begin_call < w.ret && s.drop_ret > w.call);
        // sessions of writers preparing changesets count as well: they are not logged, so any other
        // writer activity overlapping counts
        let writer_overlap = writes.iter().any(|o| !std::ptr::eq(o, w) && o.thread != w.thread && o.call < w.ret && o.ret > w.call);
        let other_writer_threads = writes.iter().any(|o| o.thread != w.thread);
        if !session_overlap && !writer_overlap && !other_writer_threads {
            rep.fail(
                "C15",
                "deferral-without-contender",
                format!("{} [{}..{}] handed the changeset back although nothing else was running", w.kind, w.call, w.ret),
            );
        }
    }
    // (3)+(4) winners form a chain; final state is the fold of the winners
    let mut order: Vec<&WriteRec> = committed.clone();
    order.sort_by_key(|w| w.ret);
    let mut stack: Vec<(u64, Kv)> = Vec::new(); // (version, cold-state+hot state map)
    let mut state = Kv::new();
    for (i, k) in sh.hot.iter().enumerate() {
        state.insert(*k, mk_val::<K>(version_value(1, i)));
    }
    // the initial commit (version 1 on top of the empty store) is itself in the rollback log
    stack.push((0, Kv::new()));
    stack.push((1, state));
    let mut pending: Vec<&WriteRec> = Vec::new();
    let mut chain_broken = false;
    let apply = |stack: &mut Vec<(u64, Kv)>, w: &WriteRec| -> bool {
        if w.kind == "rollback" {
            let n = w.version as usize;
            if stack.len() > n {
                stack.truncate(stack.len() - n);
                true
            } else {
                false
            }
        } else if stack.last().unwrap().0 == w.base {
            let mut st = stack.last().unwrap().1.clone();
            for (i, k) in sh.hot.iter().enumerate() {
                st.insert(*k, mk_val::<K>(version_value(w.version, i)));
            }
            for (k, v) in &w.cold {
                match v {
                    Some(v) => {
                        st.insert(*k, mk_val::<K>(v.clone()));
                    }
                    None => {
                        st.remove(k);
                    }
                }
            }
            stack.push((w.version, st));
            true
        } else {
            false
        }
    };
    for w in order {
        pending.push(w);
        // Return ticks can be slightly out of lock order. Commits are placed by their base link;
        // a rollback (which has no link) is placed when it is the oldest pending operation, or
        // when no pending commit fits the current top.
        let mut progress = true;
        while progress {
            progress = false;
            if let Some(i) = pending.iter().position(|w| w.kind != "rollback" && stack.last().unwrap().0 == w.base) {
                let w = pending.remove(i);
                apply(&mut stack, w);
                progress = true;
                continue;
            }
            if let Some(i) = pending.iter().position(|w| w.kind == "rollback") {
                let earlier_commit_waiting = pending[..i].iter().any(|w| w.kind != "rollback");
                if !earlier_commit_waiting || pending.len() > 2 {
                    let w = pending.remove(i);
                    if apply(&mut stack, w) {
                        progress = true;
                    } else {
                        pending.insert(i, w);
                    }
                }
            }
        }
        if pending.len() > 4 {
            chain_broken = true;
            break;
        }
    }
    rep.eval("C15", nontrivial);
    rep.eval("C12", nontrivial);
    if chain_broken || !pending.is_empty() {
        let w = pending[0];
        let d = format!(
            "the successful writes do not form a chain: {} by thread {} [{}..{}] (base version {}, writes version {}) was accepted although version {} was not current; {} successful writes, {} cannot be placed",
            w.kind, w.thread, w.call, w.ret, w.base, w.version, w.base, committed.len(), pending.len()
        );
        rep.fail("C15", &format!("winners-not-a-chain:{}", w.kind), d.clone());
        rep.fail("C12", &format!("stale-changeset-accepted-concurrently:{}", w.kind), d);
        return;
    }
    let (top_version, final_state) = stack.last().unwrap().clone();
    // final reads
    let mut bad = Vec::new();
    for (k, v) in final_state.iter() {
        match sh.db.read(*k) {
            Ok(got) => {
                if got.as_deref() != Some(&v.bytes[..]) {
                    bad.push(format!("{} -> {:?}", hex8(k), version_of(&got)));
                }
            }
            Err(e) => bad.push(format!("read error {e}")),
        }
    }
    for k in &sh.cold_pool {
        if !final_state.contains_key(k) {
            if let Ok(Some(v)) = sh.db.read(*k) {
                bad.push(format!("{} should be absent, has version {:?}", hex8(k), version_of(&Some(v))));
            }
        }
    }
    rep.eval("C15", nontrivial);
    if !bad.is_empty() {
        rep.fail(
            "C15",
            "final-state-not-fold-of-winners",
            format!("final values differ from the fold of the {} successful writes (top version {top_version}): {}", committed.len(), bad.iter().take(4).cloned().collect::<Vec<_>>().join(", ")),
        );
    }
    let root = sh.db.root().into_inner();
    let want = kv_root::<K>(&final_state);
    if root != want {
        rep.fail("C15", "final-root-not-fold-of-winners", format!("final root {} != root of the fold of winners {}", hex8(&root), hex8(&want)));
    }
    let seqn = sh.db.sync_seqn();
    if seqn as usize != 1 + committed.len() {
        // (the initial commit is the +1)
        rep.fail(
            "C15",
            "seqn-not-number-of-winners",
            format!("sync_seqn {} but {} writes reported success (+1 initial)", seqn, committed.len()),
        );
    }
    // (1b) every session's version was current at some moment of its begin interval
    let mut created: HashMap<u64, Vec<(u64, u64)>> = HashMap::new(); // version -> list of (earliest current, latest current)
    {
        // recompute the chain with times
        let mut order: Vec<&WriteRec> = committed.clone();
        order.sort_by_key(|w| w.ret);
        let mut st: Vec<(u64, u64)> = vec![(0, 0), (1, 0)]; // (version, since)
        let mut cur_since = 0u64;
        let mut cur_version = 1u64;
        for w in order {
            created.entry(cur_version).or_default().push((cur_since, w.ret));
            if w.kind == "rollback" {
                let n = w.version as usize;
                if st.len() > n {
                    st.truncate(st.len() - n);
                }
                cur_version = st.last().unwrap().0;
            } else {
                st.push((w.version, w.call));
                cur_version = w.version;
            }
            cur_since = w.call;
        }
        created.entry(cur_version).or_default().push((cur_since, u64::MAX));
    }
    for s in sessions {
        let Some(Some(v)) = s.reads.first().map(|r| r.1) else { continue };
        rep.eval("C15", nontrivial);
        let ok = created.get(&v).map_or(false, |ivs| ivs.iter().any(|(a, b)| *a <= s.begin_ret && *b >= s.begin_call));
        if !ok && cfg.rollback == false {
            rep.fail(
                "C15",
                "session-state-not-current-at-begin",
                format!("session (thread {}, begin {}..{}) saw version {v}, which was not the committed state at any moment of its begin interval ({:?})", s.thread, s.begin_call, s.begin_ret, created.get(&v)),
            );
        }
    }
}

//! Value and batch generators.

use crate::model::Kv;
use crate::sut::{Access, Batch};
use nvcore::keygen::{diverge_at, KeyPool};
use nvcore::reftrie::Key;
use nvcore::rng::Rng;

/// Value lengths straddling every layout boundary: empty, in-leaf maximum (1332), one overflow
/// page body (4092), 15 direct overflow pointers (15*4092 = 61380), 64 KiB and beyond.
pub const BOUNDARY_LENS: &[usize] = &[
    0, 1, 31, 32, 33, 100, 1331, 1332, 1333, 2000, 4091, 4092, 4093, 4096, 8184, 8185, 61379, 61380, 61381, 65536,
    65537,
];

#[derive(Clone, Copy, Debug, PartialEq, Eq)]
pub enum ValProfile {
    /// mostly small, a few boundary sizes
    Small,
    /// heavy use of boundary sizes and overflow
    Boundary,
    /// tiny only (keeps trees shallow, for geometry-focused runs)
    Tiny,
}

pub fn value_len(rng: &mut Rng, p: ValProfile) -> usize {
    match p {
        ValProfile::Tiny => rng.range(0, 16) as usize,
        ValProfile::Small => match rng.below(20) {
            0 => *rng.pick(BOUNDARY_LENS),
            1 => rng.range(1300, 1400) as usize,
            2 => 0,
            _ => rng.range(1, 200) as usize,
        },
        ValProfile::Boundary => match rng.below(20) {
            0..=7 => *rng.pick(BOUNDARY_LENS),
            8 => rng.range(1300, 1400) as usize,
            9 => rng.range(4000, 4200) as usize,
            10 => rng.range(61000, 62000) as usize,
            11 => {
                if rng.chance(1, 6) {
                    rng.range(200_000, 1_100_000) as usize
                } else {
                    rng.range(5000, 70000) as usize
                }
            }
            _ => rng.range(0, 600) as usize,
        },
    }
}

/// A value of length `len` whose content is a unique stamp repeated (so a read identifies the
/// write it observed).
pub fn stamped_value(stamp: u64, len: usize) -> Vec<u8> {
    let mut v = Vec::with_capacity(len);
    let mut x = stamp;
    while v.len() < len {
        x = x.wrapping_mul(0x9E3779B97F4A7C15).wrapping_add(0x632BE59BD9B4E019);
        let b = x.to_le_bytes();
        let take = (len - v.len()).min(8);
        v.extend_from_slice(&b[..take]);
    }
    v
}

pub struct BatchParams {
    pub size: usize,
    pub val: ValProfile,
    /// per-mille weights: read, write-new, overwrite, delete-present, delete-absent, read-then-write
    pub w: [u32; 6],
}

/// Generate a sorted batch against `view` using keys from `pool`.
pub fn gen_batch(rng: &mut Rng, pool: &KeyPool, view: &Kv, p: &BatchParams, stamp_base: u64) -> Batch {
    let mut map: std::collections::BTreeMap<Key, Access> = std::collections::BTreeMap::new();
    let present: Vec<Key> = if view.len() <= 8192 {
        view.keys().copied().collect()
    } else {
        let skip = view.len() / 4096;
        let off = rng.usize_below(skip.max(1));
        view.keys().skip(off).step_by(skip.max(1)).copied().collect()
    };
    let mut n = 0u64;
    let mut guard = 0;
    while map.len() < p.size && guard < p.size * 4 + 16 {
        guard += 1;
        n += 1;
        let kind = rng.weighted(&p.w);
        let stamp = stamp_base.wrapping_add(n);
        let mut newval = |rng: &mut Rng| Some(stamped_value(stamp, value_len(rng, p.val)));
        let pick_present = |rng: &mut Rng| -> Option<Key> {
            if present.is_empty() {
                None
            } else {
                Some(*rng.pick(&present))
            }
        };
        let pick_absent = |rng: &mut Rng| -> Key {
            // an absent key: from the pool if not present, else a neighbour of a present key
            for _ in 0..4 {
                let k = pool.pick(rng);
                if !view.contains_key(&k) {
                    return k;
                }
            }
            match pick_present(rng) {
                Some(b) => {
                    let d = rng.usize_below(256);
                    diverge_at(rng, &b, d)
                }
                None => rng.key(),
            }
        };
        let (k, a) = match kind {
            0 => {
                let k = if rng.bool() { pick_present(rng).unwrap_or_else(|| pick_absent(rng)) } else { pick_absent(rng) };
                (k, Access::Read)
            }
            1 => (pick_absent(rng), Access::Write(newval(rng))),
            2 => match pick_present(rng) {
                Some(k) => (k, Access::Write(newval(rng))),
                None => (pick_absent(rng), Access::Write(newval(rng))),
            },
            3 => match pick_present(rng) {
                Some(k) => (k, Access::Write(None)),
                None => (pick_absent(rng), Access::Write(newval(rng))),
            },
            4 => (pick_absent(rng), Access::Write(None)),
            _ => {
                let k = if rng.bool() { pick_present(rng).unwrap_or_else(|| pick_absent(rng)) } else { pick_absent(rng) };
                let v = if rng.chance(1, 4) { None } else { newval(rng) };
                (k, Access::ReadThenWrite(v))
            }
        };
        map.entry(k).or_insert(a);
    }
    map.into_iter().collect()
}

/// Delete a large random share (or all) of the present keys.
pub fn gen_mass_delete(rng: &mut Rng, view: &Kv, share_percent: u64) -> Batch {
    let mut b = Vec::new();
    for k in view.keys() {
        if rng.below(100) < share_percent {
            b.push((*k, Access::Write(None)));
        }
    }
    b
}

/// Delete the smallest `n` keys (exercises the first-leaf separator rule).
pub fn gen_delete_smallest(view: &Kv, n: usize) -> Batch {
    view.keys().take(n).map(|k| (*k, Access::Write(None))).collect()
}

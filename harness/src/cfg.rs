//! Store configurations.

use nvcore::rng::Rng;
use serde_json::json;
use std::path::Path;

#[derive(Clone, Debug)]
pub struct Cfg {
    pub commit_concurrency: usize,
    pub io_workers: usize,
    pub buckets: u32,
    pub bitbox_seed: [u8; 16],
    pub rollback: bool,
    pub max_log: u32,
    pub warm_up: bool,
    pub preallocate_ht: bool,
    pub page_cache_mb: usize,
    pub leaf_cache_mb: usize,
    pub prepopulate: bool,
    pub upper_levels: usize,
    /// rollback segment size override in bytes (0 = library default of 64 MiB)
    pub seg_size: u64,
}

impl Cfg {
    pub fn default_small() -> Self {
        Cfg {
            commit_concurrency: 1,
            io_workers: 1,
            buckets: 4096,
            bitbox_seed: [0; 16],
            rollback: false,
            max_log: 100,
            warm_up: false,
            preallocate_ht: false,
            page_cache_mb: 8,
            leaf_cache_mb: 8,
            prepopulate: false,
            upper_levels: 2,
            seg_size: 0,
        }
    }

    /// Sample the runtime-tunable part of the option space (everything that may legitimately
    /// change between two opens of the same directory).
    pub fn resample_runtime(&mut self, rng: &mut Rng) {
        self.commit_concurrency = *rng.pick(&[1usize, 1, 2, 3, 4, 7, 16, 64]);
        self.io_workers = *rng.pick(&[1usize, 1, 3, 8]);
        self.warm_up = rng.bool();
        self.page_cache_mb = *rng.pick(&[1usize, 2, 8, 256]);
        self.leaf_cache_mb = *rng.pick(&[0usize, 1, 8, 256]);
        self.prepopulate = rng.chance(1, 3);
        self.upper_levels = rng.usize_below(3); // level 3 would pin ~1 GiB; 0..2 sampled
        self.preallocate_ht = false;
        if std::env::var("NV_BASELINE_CFG").is_ok() {
            // used by the C13 hang differential: same history, plainest configuration
            self.commit_concurrency = 1;
            self.io_workers = 1;
            self.warm_up = false;
            self.page_cache_mb = 8;
            self.leaf_cache_mb = 8;
            self.prepopulate = false;
            self.upper_levels = 2;
        }
    }

    pub fn sample(rng: &mut Rng) -> Self {
        let mut c = Cfg::default_small();
        c.resample_runtime(rng);
        c.buckets = *rng.pick(&[256u32, 1024, 4096, 4096, 16384, 64000]);
        rng.fill(&mut c.bitbox_seed);
        c
    }

    pub fn options(&self, path: &Path) -> nomt::Options {
        let mut o = nomt::Options::new();
        o.path(path);
        let cc = std::env::var("NV_FORCE_CC").ok().and_then(|v| v.parse().ok()).unwrap_or(self.commit_concurrency);
        o.commit_concurrency(cc);
        o.io_workers(self.io_workers);
        o.hashtable_buckets(self.buckets);
        o.bitbox_seed(self.bitbox_seed);
        o.rollback(self.rollback);
        o.max_rollback_log_len(self.max_log);
        o.warm_up(self.warm_up);
        o.preallocate_ht(self.preallocate_ht);
        o.page_cache_size(self.page_cache_mb);
        o.leaf_cache_size(self.leaf_cache_mb);
        o.prepopulate_page_cache(self.prepopulate);
        o.page_cache_upper_levels(self.upper_levels);
        o
    }

    pub fn to_json(&self) -> serde_json::Value {
        json!({
            "commit_concurrency": self.commit_concurrency,
            "io_workers": self.io_workers,
            "buckets": self.buckets,
            "rollback": self.rollback,
            "max_log": self.max_log,
            "warm_up": self.warm_up,
            "page_cache_mb": self.page_cache_mb,
            "leaf_cache_mb": self.leaf_cache_mb,
            "prepopulate": self.prepopulate,
            "upper_levels": self.upper_levels,
            "seg_size": self.seg_size,
        })
    }
}

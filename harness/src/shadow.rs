//! Shadow disk: folds an I/O event log over a base image of the directory and materialises the
//! directory as it could be found after a process crash or a power loss at a chosen boundary.
//!
//! Fault model (the quantifier text of C03/C04):
//!  * process crash: everything that completed is there (the page cache survives); operations in
//!    flight at the boundary may or may not have happened;
//!  * power loss: an fsync makes durable exactly the operations on its file that had completed
//!    before it started (for creations/removals: a directory fsync); every other operation is
//!    volatile. Volatile in-place page writes may each be lost independently; volatile
//!    size-changing operations of one file (truncate, grow, append, write to a truncated file) are
//!    kept as a prefix, the last kept append cut at a page boundary.

use crate::io_rec::{Event, Phase};
use nomt::verif::Kind;
use nvcore::rng::Rng;
use std::collections::{BTreeMap, HashMap};
use std::fs::{File, OpenOptions};
use std::os::unix::fs::FileExt;
use std::os::unix::io::AsRawFd;
use std::path::Path;

/// Copy a file preserving holes.
pub fn sparse_copy(src: &Path, dst: &Path) -> std::io::Result<()> {
    let s = File::open(src)?;
    let len = s.metadata()?.len();
    let d = OpenOptions::new().write(true).create(true).truncate(true).open(dst)?;
    d.set_len(len)?;
    let fd = s.as_raw_fd();
    let mut pos: i64 = 0;
    let mut buf = vec![0u8; 1 << 20];
    loop {
        let data = unsafe { libc::lseek(fd, pos, libc::SEEK_DATA) };
        if data < 0 {
            break; // ENXIO: no more data
        }
        let mut hole = unsafe { libc::lseek(fd, data, libc::SEEK_HOLE) };
        if hole < 0 {
            hole = len as i64;
        }
        let mut p = data as u64;
        while p < hole as u64 {
            let n = ((hole as u64 - p) as usize).min(buf.len());
            s.read_exact_at(&mut buf[..n], p)?;
            d.write_all_at(&buf[..n], p)?;
            p += n as u64;
        }
        pos = hole;
        if pos as u64 >= len {
            break;
        }
    }
    Ok(())
}

pub fn copy_dir(src: &Path, dst: &Path) -> std::io::Result<()> {
    let _ = std::fs::remove_dir_all(dst);
    std::fs::create_dir_all(dst)?;
    for e in std::fs::read_dir(src)? {
        let e = e?;
        if e.file_type()?.is_file() {
            sparse_copy(&e.path(), &dst.join(e.file_name()))?;
        }
    }
    Ok(())
}

#[derive(Clone, Debug, PartialEq, Eq)]
pub enum Status {
    InFlight,
    Completed,
    Failed,
}

/// One mutating operation as seen up to the boundary.
#[derive(Clone, Debug)]
pub struct ShOp {
    pub ev: Event,
    pub status: Status,
    /// made durable by a completed fsync (power-loss model)
    pub durable: bool,
    /// position of the Pre event in the log
    pub pos: usize,
}

pub struct Folded {
    pub ops: Vec<ShOp>,
}

/// Fold the first `boundary` log entries.
pub fn fold(events: &[Event], boundary: usize) -> Folded {
    let mut ops: Vec<ShOp> = Vec::new();
    let mut index: HashMap<u64, usize> = HashMap::new();
    // fsync op id -> indices of ops it covers
    let mut covers: HashMap<u64, Vec<usize>> = HashMap::new();
    for (pos, e) in events.iter().take(boundary).enumerate() {
        match e.phase {
            Phase::Pre => {
                if !e.ok {
                    // injected failure: never performed
                    continue;
                }
                if matches!(e.kind, Kind::Fsync | Kind::DirFsync) {
                    // covers what has completed before it starts
                    let mut c = Vec::new();
                    for (i, o) in ops.iter().enumerate() {
                        if o.status != Status::Completed || o.durable {
                            continue;
                        }
                        let same_file = o.ev.file == e.file && !matches!(o.ev.kind, Kind::Create | Kind::Unlink);
                        let dir_entry = e.kind == Kind::DirFsync && matches!(o.ev.kind, Kind::Create | Kind::Unlink);
                        if same_file || dir_entry {
                            c.push(i);
                        }
                    }
                    covers.insert(e.op, c);
                }
                index.insert(e.op, ops.len());
                ops.push(ShOp {
                    ev: e.clone(),
                    status: Status::InFlight,
                    durable: false,
                    pos,
                });
            }
            Phase::Post => {
                if let Some(&i) = index.get(&e.op) {
                    ops[i].status = if e.ok { Status::Completed } else { Status::Failed };
                    if e.ok && matches!(e.kind, Kind::Fsync | Kind::DirFsync) {
                        if let Some(c) = covers.remove(&e.op) {
                            for j in c {
                                ops[j].durable = true;
                            }
                        }
                        ops[i].durable = true;
                    }
                }
            }
        }
    }
    Folded { ops }
}

#[derive(Clone, Debug)]
pub enum Policy {
    /// process crash; in-flight operations dropped / applied / random
    ProcessCrash { inflight: InFlight },
    /// power loss: durable ops only
    LoseAllVolatile,
    /// power loss: everything that completed (and nothing in flight)
    KeepAllVolatile,
    /// power loss: lose exactly the i-th volatile page write (others kept)
    LoseOne(usize),
    /// power loss: keep exactly the i-th volatile page write (others lost)
    KeepOne(usize),
    /// power loss: random subset, seeded
    Random(u64),
    /// power loss: keep everything but cut the last volatile multi-page write/append after `pages` pages
    TornLast(usize),
}

#[derive(Clone, Debug)]
pub enum InFlight {
    Dropped,
    Applied,
    Random(u64),
}

/// Operations that are kept as an ordered prefix when volatile: the size-changing operations of
/// one file form one group; creations and removals of directory entries form one group for the
/// whole directory (the fault model gives no licence to reorder directory operations).
fn order_group(e: &Event) -> String {
    if matches!(e.kind, Kind::Create | Kind::Unlink) {
        ".".to_string()
    } else {
        e.file.clone()
    }
}

fn is_page_write(e: &Event) -> bool {
    matches!(e.kind, Kind::UringWrite) || (e.kind == Kind::Write && e.file != "wal" && e.data.as_ref().map_or(false, |d| d.len() == 4096))
}

/// Decide, for every operation, how much of it is applied: None = not at all, Some(n) = first n
/// bytes of its data (usize::MAX = all).
pub fn choose(f: &Folded, policy: &Policy) -> (Vec<Option<usize>>, usize) {
    let n = f.ops.len();
    let mut apply: Vec<Option<usize>> = vec![None; n];
    let mut volatile_count = 0;
    match policy {
        Policy::ProcessCrash { inflight } => {
            let mut rng = Rng::new(match inflight {
                InFlight::Random(s) => *s,
                _ => 0,
            });
            for (i, o) in f.ops.iter().enumerate() {
                apply[i] = match o.status {
                    Status::Completed => Some(usize::MAX),
                    Status::Failed => None,
                    Status::InFlight => {
                        volatile_count += 1;
                        match inflight {
                            InFlight::Dropped => None,
                            InFlight::Applied => Some(usize::MAX),
                            InFlight::Random(_) => {
                                if rng.bool() {
                                    Some(usize::MAX)
                                } else {
                                    None
                                }
                            }
                        }
                    }
                };
            }
        }
        _ => {
            // power loss
            let vol_pages: Vec<usize> = f
                .ops
                .iter()
                .enumerate()
                .filter(|(_, o)| !o.durable && o.status != Status::Failed && is_page_write(&o.ev))
                .map(|(i, _)| i)
                .collect();
            volatile_count = f.ops.iter().filter(|o| !o.durable && o.status != Status::Failed && !matches!(o.ev.kind, Kind::Fsync | Kind::DirFsync)).count();
            let mut rng = Rng::new(match policy {
                Policy::Random(s) => *s,
                _ => 0,
            });
            // size-changing volatile ops per file: prefix semantics
            let mut keep_prefix: BTreeMap<String, usize> = BTreeMap::new(); // file -> number of size ops kept
            let mut size_ops_seen: BTreeMap<String, usize> = BTreeMap::new();
            if let Policy::Random(_) = policy {
                let mut counts: BTreeMap<String, usize> = BTreeMap::new();
                for o in &f.ops {
                    if !o.durable && o.status != Status::Failed && !is_page_write(&o.ev) && !matches!(o.ev.kind, Kind::Fsync | Kind::DirFsync) {
                        *counts.entry(order_group(&o.ev)).or_default() += 1;
                    }
                }
                for (file, c) in counts {
                    keep_prefix.insert(file, rng.usize_below(c + 1));
                }
            }
            let last_multi = f
                .ops
                .iter()
                .enumerate()
                .rev()
                .find(|(_, o)| !o.durable && o.status != Status::Failed && o.ev.data.as_ref().map_or(false, |d| d.len() > 4096))
                .map(|(i, _)| i);
            for (i, o) in f.ops.iter().enumerate() {
                if o.status == Status::Failed || matches!(o.ev.kind, Kind::Fsync | Kind::DirFsync) {
                    continue;
                }
                if o.durable {
                    apply[i] = Some(usize::MAX);
                    continue;
                }
                let completed = o.status == Status::Completed;
                let page = is_page_write(&o.ev);
                apply[i] = match policy {
                    Policy::LoseAllVolatile => None,
                    Policy::KeepAllVolatile => completed.then_some(usize::MAX),
                    Policy::LoseOne(j) => {
                        if page && vol_pages.get(*j) == Some(&i) {
                            None
                        } else {
                            completed.then_some(usize::MAX)
                        }
                    }
                    Policy::KeepOne(j) => {
                        if page && vol_pages.get(*j) == Some(&i) {
                            Some(usize::MAX)
                        } else {
                            None
                        }
                    }
                    Policy::TornLast(pages) => {
                        if Some(i) == last_multi {
                            Some(pages * 4096)
                        } else if last_multi.map_or(false, |l| i > l) && o.ev.file == f.ops[last_multi.unwrap()].ev.file {
                            None // prefix semantics: nothing after the torn op on that file
                        } else {
                            completed.then_some(usize::MAX)
                        }
                    }
                    Policy::Random(_) => {
                        if page {
                            rng.bool().then_some(usize::MAX)
                        } else {
                            let seen = size_ops_seen.entry(order_group(&o.ev)).or_default();
                            let k = keep_prefix.get(&order_group(&o.ev)).copied().unwrap_or(0);
                            let keep = *seen < k;
                            *seen += 1;
                            keep.then_some(usize::MAX)
                        }
                    }
                    Policy::ProcessCrash { .. } => unreachable!(),
                };
            }
        }
    }
    (apply, volatile_count)
}

/// Materialise: copy `base` to `out` and apply the chosen operations in log order.
pub fn materialise(base: &Path, out: &Path, f: &Folded, apply: &[Option<usize>]) -> std::io::Result<()> {
    copy_dir(base, out)?;
    // lengths of append-mode files are tracked through the real files
    for (o, a) in f.ops.iter().zip(apply) {
        let Some(limit) = a else { continue };
        let e = &o.ev;
        let path = if e.file == "." { out.to_path_buf() } else { out.join(&e.file) };
        match e.kind {
            Kind::Fsync | Kind::DirFsync | Kind::UringRead => {}
            Kind::Create => {
                let _ = OpenOptions::new().write(true).create(true).open(&path)?;
            }
            Kind::Unlink => {
                let _ = std::fs::remove_file(&path);
            }
            Kind::SetLen => {
                if let Ok(fh) = OpenOptions::new().write(true).open(&path) {
                    fh.set_len(e.offset)?;
                }
            }
            Kind::Write | Kind::UringWrite => {
                if let (Some(d), Ok(fh)) = (e.data.as_ref(), OpenOptions::new().write(true).open(&path)) {
                    let n = d.len().min(*limit);
                    fh.write_all_at(&d[..n], e.offset)?;
                }
            }
            Kind::Append => {
                if let (Some(d), Ok(fh)) = (e.data.as_ref(), OpenOptions::new().write(true).open(&path)) {
                    let n = d.len().min(*limit);
                    // `offset` carries the writer's notion of the end of file
                    fh.write_all_at(&d[..n], e.offset)?;
                }
            }
        }
    }
    Ok(())
}

/// Index of the first log entry after the completion of the last successful `meta_write`, and of
/// its start; None if the log holds no meta write.
pub fn meta_points(events: &[Event]) -> Option<(usize, usize, Option<usize>)> {
    // (pos of meta_write Pre, pos of meta_write Post, pos of meta_fsync Post)
    let pre = events.iter().position(|e| e.site == "meta_write" && e.phase == Phase::Pre)?;
    let op = events[pre].op;
    let post = events.iter().position(|e| e.op == op && e.phase == Phase::Post)?;
    let fs = events.iter().position(|e| e.site == "meta_fsync" && e.phase == Phase::Post && e.ok);
    Some((pre, post, fs))
}

//! The process-global I/O hook: records every mutating file operation of one directory into an
//! event log, and can inject an error at, or kill the process at, the k-th mutating event.

use nomt::verif::{Action, IoHook, Kind, Op};
use parking_lot::Mutex;
use std::path::{Path, PathBuf};
use std::sync::{Arc, OnceLock};

#[derive(Clone, Debug, PartialEq, Eq)]
pub enum Phase {
    Pre,
    Post,
}

#[derive(Clone, Debug)]
pub struct Event {
    pub phase: Phase,
    pub site: &'static str,
    pub kind: Kind,
    /// file name relative to the watched directory ("meta", "ln", "rollback.0000000001.log", "." for the directory)
    pub file: String,
    pub offset: u64,
    pub data: Option<Arc<Vec<u8>>>,
    pub ok: bool,
    /// pairs Pre and Post of the same operation
    pub op: u64,
    /// index among mutating operations (Pre events), starting at 0
    pub mut_index: u64,
}

#[derive(Clone, Debug, PartialEq)]
pub enum Mode {
    Off,
    Record,
    /// fail the mutating operation with index `at` (and all later ones of the same kinds if persistent)
    Inject { at: u64, errno: i32, persistent: bool },
    /// _exit(86) when the mutating operation with index `at` is about to start
    KillAt { at: u64 },
}

pub struct State {
    pub mode: Mode,
    pub dir: PathBuf,
    pub events: Vec<Event>,
    pub next_mut: u64,
    pub next_op: u64,
    /// (fd, offset) -> op ids of in-flight async writes
    inflight: Vec<(i32, u64, u64, String)>,
    pub injected: u64,
    pub injected_site: Option<(&'static str, Kind, String)>,
    /// delay (microseconds) applied to async completions: schedule perturbation
    pub completion_delay_us: u64,
    pub delay_seed: u64,
}

pub struct Recorder {
    pub st: Mutex<State>,
}

static REC: OnceLock<Arc<Recorder>> = OnceLock::new();

pub fn recorder() -> Arc<Recorder> {
    REC.get_or_init(|| {
        let r = Arc::new(Recorder {
            st: Mutex::new(State {
                mode: Mode::Off,
                dir: PathBuf::new(),
                events: Vec::new(),
                next_mut: 0,
                next_op: 1,
                inflight: Vec::new(),
                injected: 0,
                injected_site: None,
                completion_delay_us: 0,
                delay_seed: 0,
            }),
        });
        nomt::verif::set_hook(Some(r.clone() as Arc<dyn IoHook>));
        r
    })
    .clone()
}

pub fn is_mutating(k: Kind) -> bool {
    !matches!(k, Kind::UringRead)
}

/// Kinds that the property C14 names: write, resize, fsync.
pub fn is_injectable(k: Kind) -> bool {
    matches!(
        k,
        Kind::Write | Kind::Append | Kind::SetLen | Kind::Fsync | Kind::DirFsync | Kind::UringWrite
    )
}

fn fd_path(fd: i32) -> Option<PathBuf> {
    std::fs::read_link(format!("/proc/self/fd/{fd}")).ok()
}

impl Recorder {
    pub fn start(&self, dir: &Path, mode: Mode) {
        let mut st = self.st.lock();
        st.mode = mode;
        st.dir = dir.to_path_buf();
        st.events.clear();
        st.next_mut = 0;
        st.inflight.clear();
        st.injected = 0;
        st.injected_site = None;
    }

    pub fn stop(&self) -> Vec<Event> {
        let mut st = self.st.lock();
        st.mode = Mode::Off;
        std::mem::take(&mut st.events)
    }

    pub fn set_delay(&self, us: u64, seed: u64) {
        let mut st = self.st.lock();
        st.completion_delay_us = us;
        st.delay_seed = seed;
    }

    fn rel(&self, st: &State, op: &Op) -> Option<String> {
        let p = match op.path {
            Some(p) => p.to_path_buf(),
            None => fd_path(op.fd)?,
        };
        // deleted files show up as "name (deleted)"
        let s = p.to_string_lossy().replace(" (deleted)", "");
        let p = PathBuf::from(s);
        if p == st.dir {
            return Some(".".to_string());
        }
        let r = p.strip_prefix(&st.dir).ok()?;
        Some(r.to_string_lossy().to_string())
    }
}

impl IoHook for Recorder {
    fn pre(&self, op: &Op) -> Action {
        let mut st = self.st.lock();
        if st.mode == Mode::Off || !is_mutating(op.kind) {
            return Action::Proceed;
        }
        let Some(file) = self.rel(&st, op) else {
            return Action::Proceed;
        };
        let mut_index = st.next_mut;
        st.next_mut += 1;
        let opid = if op.id != 0 {
            op.id
        } else {
            let id = st.next_op + (1 << 40);
            st.next_op += 1;
            st.inflight.push((op.fd, op.offset, id, file.clone()));
            id
        };
        match st.mode.clone() {
            Mode::KillAt { at } if mut_index == at => {
                // keep the lock: every other thread blocks at its next hook call
                unsafe { libc::_exit(86) };
            }
            Mode::Inject { at, errno, persistent }
                if is_injectable(op.kind) && (mut_index == at || (persistent && mut_index > at && st.injected > 0)) =>
            {
                st.injected += 1;
                if st.injected_site.is_none() {
                    st.injected_site = Some((op.site, op.kind, file.clone()));
                }
                // an async op failed before submission never completes through `post`
                if op.id == 0 {
                    st.inflight.retain(|x| x.2 != opid);
                }
                st.events.push(Event {
                    phase: Phase::Pre,
                    site: op.site,
                    kind: op.kind,
                    file,
                    offset: op.offset,
                    data: None,
                    ok: false,
                    op: opid,
                    mut_index,
                });
                return Action::Fail(errno);
            }
            _ => {}
        }
        let data = if op.data.is_empty() { None } else { Some(Arc::new(op.data.to_vec())) };
        st.events.push(Event {
            phase: Phase::Pre,
            site: op.site,
            kind: op.kind,
            file,
            offset: op.offset,
            data,
            ok: true,
            op: opid,
            mut_index,
        });
        Action::Proceed
    }

    fn post(&self, site: &'static str, kind: Kind, fd: i32, offset: u64, id: u64, ok: bool) {
        let (delay, seed);
        {
            let mut st = self.st.lock();
            delay = st.completion_delay_us;
            seed = st.delay_seed;
            st.delay_seed = st.delay_seed.wrapping_mul(6364136223846793005).wrapping_add(1442695040888963407);
            if st.mode != Mode::Off && is_mutating(kind) {
                let found = if id != 0 {
                    // synchronous op: find its Pre to copy the file name
                    st.events.iter().rev().find(|e| e.op == id).map(|e| (e.op, e.file.clone(), e.mut_index))
                } else {
                    let pos = st.inflight.iter().position(|x| x.0 == fd && x.1 == offset);
                    pos.map(|p| {
                        let x = st.inflight.remove(p);
                        let mi = st.events.iter().rev().find(|e| e.op == x.2).map_or(0, |e| e.mut_index);
                        (x.2, x.3, mi)
                    })
                };
                if let Some((opid, file, mut_index)) = found {
                    st.events.push(Event {
                        phase: Phase::Post,
                        site,
                        kind,
                        file,
                        offset,
                        data: None,
                        ok,
                        op: opid,
                        mut_index,
                    });
                }
            }
        }
        if delay > 0 && id == 0 {
            // pseudo-random delay 0..delay us on async completions (reads and writes)
            let d = (seed >> 33) % (delay + 1);
            if d > 0 {
                std::thread::sleep(std::time::Duration::from_micros(d));
            }
        }
    }

    fn sched_point(&self, _tag: &'static str) {
        let (delay, seed);
        {
            let mut st = self.st.lock();
            delay = st.completion_delay_us;
            seed = st.delay_seed;
            st.delay_seed = st.delay_seed.wrapping_mul(6364136223846793005).wrapping_add(1442695040888963407);
        }
        if delay > 0 {
            let d = (seed >> 35) % (delay * 4 + 1);
            if d > 0 {
                std::thread::sleep(std::time::Duration::from_micros(d));
            }
        }
    }
}

pub fn describe(e: &Event) -> String {
    format!(
        "{}{:?} {} {:?}@{}{} [{}]{}",
        if e.phase == Phase::Pre { ">" } else { "<" },
        e.kind,
        e.file,
        e.kind,
        e.offset,
        e.data.as_ref().map_or(String::new(), |d| format!("+{}", d.len())),
        e.site,
        if e.ok { "" } else { " FAILED" }
    )
}

//! The system under test (a real `Nomt` handle on a scratch directory) paired with the reference
//! model, plus the oracles that compare them.

use crate::cfg::Cfg;
use crate::model::{kv_apply, kv_root, kv_trie, Kv, Model};
use nvcore::report::{hex8, Rep};
use bitvec::prelude::*;
use nomt::proof::{self, PathUpdate};
use nomt::trie::LeafData;
use nomt::{KeyReadWrite, Nomt, Overlay, Session, SessionParams, Witness, WitnessMode};
use nvcore::keygen::diverge_at;
use nvcore::reftrie::{Hash, HashKind, Key};
use nvcore::rng::Rng;
use std::collections::BTreeMap;
use std::panic::{catch_unwind, AssertUnwindSafe};
use std::path::{Path, PathBuf};

pub type Db<K> = Nomt<<K as HashKind>::Nomt>;
pub type Sess<K> = Session<<K as HashKind>::Nomt>;

#[derive(Clone, Debug)]
pub enum Access {
    Read,
    Write(Option<Vec<u8>>),
    ReadThenWrite(Option<Vec<u8>>),
}

impl Access {
    pub fn new_value(&self) -> Option<&Option<Vec<u8>>> {
        match self {
            Access::Read => None,
            Access::Write(v) | Access::ReadThenWrite(v) => Some(v),
        }
    }
}

pub type Batch = Vec<(Key, Access)>;

pub fn batch_writes(b: &Batch) -> Vec<(Key, Option<Vec<u8>>)> {
    b.iter()
        .filter_map(|(k, a)| a.new_value().map(|v| (*k, v.clone())))
        .collect()
}

/// Run `f`, converting a panic into `Err(message)`.
pub fn guard<T>(f: impl FnOnce() -> T) -> Result<T, String> {
    catch_unwind(AssertUnwindSafe(f)).map_err(|e| {
        if let Some(s) = e.downcast_ref::<&str>() {
            s.to_string()
        } else if let Some(s) = e.downcast_ref::<String>() {
            s.clone()
        } else {
            "non-string panic".to_string()
        }
    })
}

/// Shorten an error message into a stable class (digits collapsed).
pub fn msg_class(s: &str) -> String {
    let mut out = String::new();
    let mut last_hash = false;
    for c in s.chars().take(160) {
        if c.is_ascii_hexdigit() && (c.is_ascii_digit() || last_hash) {
            if !last_hash {
                out.push('#');
            }
            last_hash = true;
        } else {
            last_hash = false;
            out.push(c);
        }
    }
    out
}

pub struct Sut<K: HashKind> {
    pub dir: PathBuf,
    pub cfg: Cfg,
    pub db: Option<Db<K>>,
    pub model: Model<K>,
    /// set when the handle is in an undefined state (panic, poisoned) and the case must end
    pub dead: bool,
}

pub struct Prepared<K: HashKind> {
    pub fin: nomt::FinishedSession,
    pub batch: Batch,
    pub base_root: Hash,
    pub new_state: Kv,
    pub new_root: Hash,
    pub _k: std::marker::PhantomData<K>,
}

impl<K: HashKind> Sut<K> {
    pub fn create(dir: &Path, cfg: Cfg, rep: &mut Rep) -> Option<Self> {
        nomt::verif::set_seg_size_override(cfg.seg_size);
        let model = Model::new(cfg.rollback, cfg.max_log as usize);
        let db = match guard(|| Db::<K>::open(cfg.options(dir))) {
            Ok(Ok(db)) => db,
            Ok(Err(e)) => {
                rep.inconclusive.push(format!("create failed: {e:#}"));
                return None;
            }
            Err(p) => {
                rep.inconclusive.push(format!("create panicked: {p}"));
                return None;
            }
        };
        Some(Sut {
            dir: dir.to_path_buf(),
            cfg,
            db: Some(db),
            model,
            dead: false,
        })
    }

    pub fn db(&self) -> &Db<K> {
        self.db.as_ref().unwrap()
    }

    // ---------------------------------------------------------------- oracles

    /// C02: the handle's root equals the reference root of the model.
    pub fn check_root(&self, rep: &mut Rep, ctx: &str, nontrivial: bool) {
        let want = self.model.root();
        let got = self.db().root().into_inner();
        rep.eval("C02", nontrivial);
        if got != want {
            rep.fail(
                "C02",
                "root-mismatch",
                format!(
                    "{ctx}: Nomt::root {} != reference root {} over {} keys",
                    hex8(&got),
                    hex8(&want),
                    self.model.kv.len()
                ),
            );
        }
    }

    /// C01: direct reads and reads through a fresh session match the model.
    pub fn check_reads(&self, rep: &mut Rep, keys: &[Key], ctx: &str, nontrivial: bool) {
        let db = self.db();
        let sess = match guard(|| db.begin_session(SessionParams::default())) {
            Ok(s) => s,
            Err(p) => {
                rep.fail("C01", "begin_session-panic", format!("{ctx}: begin_session panicked: {p}"));
                return;
            }
        };
        for k in keys {
            let want = self.model.kv.get(k).map(|v| v.bytes.clone());
            for (via, got) in [
                ("Nomt::read", guard(|| db.read(*k))),
                ("Session::read", guard(|| sess.read(*k))),
            ] {
                rep.eval("C01", nontrivial);
                match got {
                    Ok(Ok(got)) => {
                        if got != want {
                            rep.fail(
                                "C01",
                                &format!("read-mismatch:{via}"),
                                format!("{ctx}: {via}({}) = {} but model says {}", hex8(k), descr(&got), descr(&want)),
                            );
                        }
                    }
                    Ok(Err(e)) => rep.fail("C01", &format!("read-error:{via}"), format!("{ctx}: {via} failed: {e:#}")),
                    Err(p) => rep.fail("C01", &format!("read-panic:{via}"), format!("{ctx}: {via} panicked: {p}")),
                }
            }
        }
    }

    /// Keys worth reading after a commit: the batch keys, random model keys, absent neighbours.
    pub fn probe_keys(&self, rng: &mut Rng, batch_keys: &[Key], n_model: usize, n_absent: usize) -> Vec<Key> {
        probe_keys_of(&self.model.kv, rng, batch_keys, n_model, n_absent)
    }

    /// C05: proofs through `sess` (whose view is `view`, root `view_root`) verify and are truthful.
    pub fn check_proofs(
        &self,
        rep: &mut Rep,
        sess: &Sess<K>,
        view: &Kv,
        view_root: Hash,
        keys: &[Key],
        ctx: &str,
        special: bool,
    ) {
        let prev = sess.prev_root().into_inner();
        if prev != view_root {
            rep.eval("C05", special);
            rep.fail(
                "C05",
                "session-prev-root",
                format!("{ctx}: session.prev_root {} != reference root of its view {}", hex8(&prev), hex8(&view_root)),
            );
            return;
        }
        for k in keys {
            let want = view.get(k);
            let res = guard(|| sess.prove(*k));
            let proof = match res {
                Ok(Ok(p)) => p,
                Ok(Err(e)) => {
                    rep.eval("C05", special);
                    rep.fail("C05", "prove-error", format!("{ctx}: prove({}) failed: {e:#}", hex8(k)));
                    continue;
                }
                Err(p) => {
                    rep.eval("C05", special);
                    rep.fail("C05", "prove-panic", format!("{ctx}: prove({}) panicked: {}", hex8(k), msg_class(&p)));
                    continue;
                }
            };
            let nsib = proof.siblings.len();
            rep.eval("C05", special || nsib >= 7);
            rep.feat_max("max_proof_siblings", nsib as u64);
            if nsib > 256 {
                rep.fail("C05", "too-many-siblings", format!("{ctx}: {} siblings", nsib));
                continue;
            }
            let verified = match guard(|| proof.verify::<K::Nomt>(k.view_bits::<Msb0>(), view_root)) {
                Ok(Ok(v)) => v,
                Ok(Err(e)) => {
                    rep.fail(
                        "C05",
                        "proof-does-not-verify",
                        format!(
                            "{ctx}: proof of {} ({} siblings, present={}) fails verification: {e:?}",
                            hex8(k),
                            nsib,
                            want.is_some()
                        ),
                    );
                    continue;
                }
                Err(p) => {
                    rep.fail("C05", "verify-panic", format!("{ctx}: verify panicked: {p}"));
                    continue;
                }
            };
            match want {
                Some(v) => {
                    let leaf = LeafData {
                        key_path: *k,
                        value_hash: v.hash,
                    };
                    match verified.confirm_value(&leaf) {
                        Ok(true) => {}
                        other => rep.fail(
                            "C05",
                            "confirm-value",
                            format!("{ctx}: present key {}: confirm_value = {other:?}", hex8(k)),
                        ),
                    }
                    if let Ok(true) = verified.confirm_nonexistence(k) {
                        rep.fail(
                            "C05",
                            "confirm-nonexistence-of-present",
                            format!("{ctx}: present key {} confirmed absent", hex8(k)),
                        );
                    }
                }
                None => match verified.confirm_nonexistence(k) {
                    Ok(true) => {}
                    other => rep.fail(
                        "C05",
                        "confirm-nonexistence",
                        format!("{ctx}: absent key {}: confirm_nonexistence = {other:?}", hex8(k)),
                    ),
                },
            }
        }
    }

    // ---------------------------------------------------------------- operations

    /// Begin a session on the committed state or on a chain of overlays, finish it with `batch`
    /// and return the finished session together with the model's expectation.
    /// `view` is the state the session is expected to see.
    pub fn prepare(
        &self,
        rep: &mut Rep,
        rng: &mut Rng,
        chain: &[&Overlay],
        view: &Kv,
        batch: Batch,
        witness: bool,
        prove_some: usize,
        ctx: &str,
    ) -> Option<Prepared<K>> {
        let db = self.db();
        let mut params = SessionParams::default();
        if witness {
            params = params.witness_mode(WitnessMode::read_write());
        }
        if !chain.is_empty() {
            params = match params.overlay(chain.iter().copied()) {
                Ok(p) => p,
                Err(e) => {
                    rep.eval("C11", true);
                    rep.fail(
                        "C11",
                        "valid-chain-refused",
                        format!("{ctx}: valid overlay chain of {} refused: {e:?}", chain.len()),
                    );
                    return None;
                }
            };
        }
        let view_root = kv_root::<K>(view);
        let sess = match guard(|| db.begin_session(params)) {
            Ok(s) => s,
            Err(p) => {
                rep.fail("C01", "begin_session-panic", format!("{ctx}: begin_session panicked: {p}"));
                return None;
            }
        };
        let on_overlay = !chain.is_empty();
        let view_prop = if on_overlay { "C11" } else { "C01" };
        let root_prop = if on_overlay { "C11" } else { "C02" };
        let prev = sess.prev_root().into_inner();
        rep.eval(root_prop, on_overlay);
        if prev != view_root {
            rep.fail(
                root_prop,
                "session-prev-root",
                format!("{ctx}: session prev_root {} != reference {}", hex8(&prev), hex8(&view_root)),
            );
        }
        // optional warm-ups / preserve hints (must not change anything: C13)
        // per session: warm up no key, every key, or about half of them
        let warm_mode = rng.below(4);
        for (k, a) in &batch {
            if warm_mode == 1 || (warm_mode >= 2 && rng.chance(1, 2)) {
                sess.warm_up(*k);
            }
            if matches!(a, Access::Write(_)) && rng.chance(1, 3) {
                sess.preserve_prior_value(*k);
            }
        }
        if rng.chance(1, 8) {
            for _ in 0..3 {
                let k = rng.key();
                sess.warm_up(k);
                sess.preserve_prior_value(k);
            }
        }
        // proofs inside the session (C05), before finishing
        if prove_some > 0 {
            let mut keys: Vec<Key> = batch.iter().map(|(k, _)| *k).collect();
            rng.shuffle(&mut keys);
            keys.truncate(prove_some);
            self.check_proofs(rep, &sess, view, view_root, &keys, ctx, on_overlay);
        }
        // build actuals, reading through the session
        let mut actuals = Vec::with_capacity(batch.len());
        for (k, a) in &batch {
            let want = view.get(k).map(|v| v.bytes.clone());
            let mut rd = |rep: &mut Rep| -> Option<Option<Vec<u8>>> {
                match guard(|| sess.read(*k)) {
                    Ok(Ok(got)) => {
                        rep.eval(view_prop, on_overlay);
                        if got != want {
                            rep.fail(
                                view_prop,
                                "session-read-mismatch",
                                format!(
                                    "{ctx}: session.read({}) = {} but view has {}",
                                    hex8(k),
                                    descr(&got),
                                    descr(&want)
                                ),
                            );
                        }
                        Some(got)
                    }
                    Ok(Err(e)) => {
                        rep.fail(view_prop, "session-read-error", format!("{ctx}: {e:#}"));
                        None
                    }
                    Err(p) => {
                        rep.fail(view_prop, "session-read-panic", format!("{ctx}: {p}"));
                        None
                    }
                }
            };
            let rw = match a {
                Access::Read => {
                    let _ = rd(rep)?;
                    // the value handed back is the model's truth (what a correct session observed)
                    KeyReadWrite::Read(want.clone())
                }
                Access::Write(v) => KeyReadWrite::Write(v.clone()),
                Access::ReadThenWrite(v) => {
                    let _ = rd(rep)?;
                    KeyReadWrite::ReadThenWrite(want.clone(), v.clone())
                }
            };
            actuals.push((*k, rw));
        }
        let fin = match guard(|| sess.finish(actuals)) {
            Ok(Ok(f)) => f,
            Ok(Err(e)) => {
                rep.fail("C01", "finish-error", format!("{ctx}: finish failed: {e:#}"));
                return None;
            }
            Err(p) => {
                rep.fail("C01", "finish-panic", format!("{ctx}: finish panicked: {}", msg_class(&p)));
                return None;
            }
        };
        let writes = batch_writes(&batch);
        let new_state = kv_apply::<K>(view, &writes);
        let new_root = kv_root::<K>(&new_state);
        let got_root = fin.root().into_inner();
        let nontriv = new_state.len() >= 2 || view.len() >= 2;
        rep.eval(root_prop, nontriv);
        if on_overlay {
            rep.eval("C02", nontriv);
        }
        if got_root != new_root {
            if on_overlay {
                rep.fail(
                    "C02",
                    "finished-root-mismatch:on-overlay",
                    format!(
                        "{ctx}: FinishedSession::root {} != reference {} for a session on an overlay chain ({} -> {} keys)",
                        hex8(&got_root),
                        hex8(&new_root),
                        view.len(),
                        new_state.len()
                    ),
                );
            }
            rep.fail(
                root_prop,
                "finished-root-mismatch",
                format!(
                    "{ctx}: FinishedSession::root {} != reference {} ({} -> {} keys, {} writes, on_overlay={})",
                    hex8(&got_root),
                    hex8(&new_root),
                    view.len(),
                    new_state.len(),
                    writes.len(),
                    on_overlay
                ),
            );
        }
        if fin.prev_root().into_inner() != view_root {
            rep.fail(root_prop, "finished-prev-root", format!("{ctx}: FinishedSession::prev_root wrong"));
        }
        Some(Prepared {
            fin,
            batch,
            base_root: view_root,
            new_state,
            new_root,
            _k: std::marker::PhantomData,
        })
    }

    /// C06: check the witness of a finished session.
    pub fn check_witness(
        rep: &mut Rep,
        w: &Witness,
        view: &Kv,
        prep_batch: &Batch,
        prev_root: Hash,
        new_root: Hash,
        ctx: &str,
        workers: usize,
    ) {
        let n_paths = w.path_proofs.len();
        let has_delete = prep_batch.iter().any(|(_, a)| matches!(a.new_value(), Some(None)));
        let mut verified = Vec::with_capacity(n_paths);
        for (i, wp) in w.path_proofs.iter().enumerate() {
            match guard(|| wp.inner.verify::<K::Nomt>(wp.path.path(), prev_root)) {
                Ok(Ok(v)) => verified.push(Some(v)),
                Ok(Err(e)) => {
                    rep.eval("C06", true);
                    rep.fail(
                        "C06",
                        "witness-path-verify",
                        format!("{ctx}: witnessed path {i}/{n_paths} does not verify: {e:?}"),
                    );
                    verified.push(None);
                }
                Err(p) => {
                    rep.eval("C06", true);
                    rep.fail("C06", "witness-path-verify-panic", format!("{ctx}: {p}"));
                    verified.push(None);
                }
            }
        }
        let mut read_keys = BTreeMap::new();
        for r in &w.operations.reads {
            read_keys.insert(r.key, r);
        }
        let mut write_keys = BTreeMap::new();
        for wr in &w.operations.writes {
            write_keys.insert(wr.key, wr);
        }
        let mut ops_by_path: BTreeMap<usize, Vec<(Key, Option<Hash>)>> = BTreeMap::new();
        let mut multi_key_terminal = false;
        for (k, a) in prep_batch {
            let prior = view.get(k);
            if matches!(a, Access::Read | Access::ReadThenWrite(_)) {
                rep.eval("C06", n_paths >= 2);
                match read_keys.get(k) {
                    None => rep.fail(
                        "C06",
                        "read-not-witnessed",
                        format!("{ctx}: read key {} missing from witness", hex8(k)),
                    ),
                    Some(r) => {
                        let want = prior.map(|v| v.hash);
                        if r.value != want {
                            rep.fail(
                                "C06",
                                "witnessed-read-value",
                                format!(
                                    "{ctx}: witnessed read of {} attests {:?} but session observed {:?}",
                                    hex8(k),
                                    r.value.map(|h| hex8(&h)),
                                    want.map(|h| hex8(&h))
                                ),
                            );
                        }
                        match verified.get(r.path_index).and_then(|v| v.as_ref()) {
                            None => rep.fail(
                                "C06",
                                "read-path-index",
                                format!("{ctx}: read path_index {} invalid", r.path_index),
                            ),
                            Some(v) => {
                                let ok = match r.value {
                                    Some(h) => v.confirm_value(&LeafData {
                                        key_path: *k,
                                        value_hash: h,
                                    }),
                                    None => v.confirm_nonexistence(k),
                                };
                                if !matches!(ok, Ok(true)) {
                                    rep.fail(
                                        "C06",
                                        "witnessed-read-not-confirmed",
                                        format!("{ctx}: witnessed read of {} not confirmed by its path: {ok:?}", hex8(k)),
                                    );
                                }
                            }
                        }
                    }
                }
            }
            if let Some(newv) = a.new_value() {
                rep.eval("C06", n_paths >= 2);
                match write_keys.get(k) {
                    None => rep.fail(
                        "C06",
                        "write-not-witnessed",
                        format!("{ctx}: written key {} missing from witness", hex8(k)),
                    ),
                    Some(wr) => {
                        let want = newv.as_ref().map(|v| K::h(v));
                        if wr.value != want {
                            rep.fail(
                                "C06",
                                "witnessed-write-value",
                                format!("{ctx}: witnessed write of {} has wrong value hash", hex8(k)),
                            );
                        }
                        if wr.path_index >= n_paths {
                            rep.fail(
                                "C06",
                                "write-path-index",
                                format!("{ctx}: write path_index {} invalid", wr.path_index),
                            );
                        } else {
                            let e = ops_by_path.entry(wr.path_index).or_default();
                            e.push((*k, wr.value));
                            if e.len() > 1 {
                                multi_key_terminal = true;
                            }
                        }
                    }
                }
            }
        }
        let mut updates = Vec::new();
        let mut ok = true;
        for (pi, mut ops) in ops_by_path {
            ops.sort_by(|a, b| a.0.cmp(&b.0));
            match verified[pi].clone() {
                Some(v) => updates.push(PathUpdate { inner: v, ops }),
                None => ok = false,
            }
        }
        let nontrivial = n_paths >= 2 && (workers >= 2 || has_delete || multi_key_terminal);
        rep.eval("C06", nontrivial);
        if ok {
            updates.sort_by(|a, b| a.inner.path().cmp(b.inner.path()));
            match guard(|| proof::verify_update::<K::Nomt>(prev_root, &updates)) {
                Ok(Ok(r)) => {
                    if r != new_root {
                        rep.fail(
                            "C06",
                            "verify-update-root",
                            format!(
                                "{ctx}: verify_update over witnessed writes gives {} but new root is {} ({} paths)",
                                hex8(&r),
                                hex8(&new_root),
                                updates.len()
                            ),
                        );
                    }
                }
                Ok(Err(e)) => rep.fail(
                    "C06",
                    "verify-update-error",
                    format!("{ctx}: verify_update failed: {e:?} ({} paths)", updates.len()),
                ),
                Err(p) => rep.fail(
                    "C06",
                    "verify-update-panic",
                    format!("{ctx}: verify_update panicked: {}", msg_class(&p)),
                ),
            }
        }
        rep.feat("witness_paths", n_paths as u64);
    }

    /// After a successful commit (model already updated): C01 reads, C02 root, seqn.
    pub fn post_commit_checks(
        &self,
        rep: &mut Rep,
        rng: &mut Rng,
        batch_keys: &[Key],
        ctx: &str,
        nontrivial: bool,
        full_sweep: bool,
    ) {
        self.check_root(rep, ctx, nontrivial);
        let keys = if full_sweep && self.model.kv.len() <= 20000 {
            let mut ks: Vec<Key> = self.model.kv.keys().copied().collect();
            ks.extend_from_slice(batch_keys);
            ks
        } else {
            self.probe_keys(rng, batch_keys, 24, 8)
        };
        self.check_reads(rep, &keys, ctx, nontrivial);
        let seqn = self.db().sync_seqn();
        if seqn != self.model.seqn {
            rep.fail(
                "C01",
                "sync-seqn",
                format!("{ctx}: sync_seqn {} != model {}", seqn, self.model.seqn),
            );
        }
    }

    /// Drop the handle and open again with `new_cfg`; C10 oracle.
    pub fn reopen(&mut self, rep: &mut Rep, rng: &mut Rng, new_cfg: Cfg, ctx: &str) -> bool {
        let db = self.db.take().unwrap();
        let before_root = db.root().into_inner();
        let before_seqn = db.sync_seqn();
        let before_occ = db.hash_table_utilization();
        let probe = self.probe_keys(rng, &[], 48, 16);
        if let Err(p) = guard(move || drop(db)) {
            rep.fail("C10", "drop-panic", format!("{ctx}: drop panicked: {p}"));
            self.dead = true;
            return false;
        }
        let differs = new_cfg.commit_concurrency != self.cfg.commit_concurrency
            || new_cfg.page_cache_mb != self.cfg.page_cache_mb
            || new_cfg.leaf_cache_mb != self.cfg.leaf_cache_mb
            || new_cfg.prepopulate != self.cfg.prepopulate
            || new_cfg.io_workers != self.cfg.io_workers;
        let nontrivial = differs && (self.model.kv.len() > 0);
        nomt::verif::set_seg_size_override(new_cfg.seg_size);
        rep.eval("C10", nontrivial);
        rep.eval("C09", self.model.retained() > 0);
        let db = match guard(|| Db::<K>::open(new_cfg.options(&self.dir))) {
            Ok(Ok(db)) => db,
            Ok(Err(e)) => {
                let m = format!("{e:#}");
                let sig = format!("reopen-failed:{}", msg_class(&m));
                let d = format!("{ctx}: Nomt::open after clean close failed: {m}");
                if self.model.rollback_enabled {
                    rep.fail("C09", &sig, d.clone());
                }
                rep.fail("C10", &sig, d);
                self.dead = true;
                return false;
            }
            Err(p) => {
                rep.fail(
                    "C10",
                    &format!("reopen-panic:{}", msg_class(&p)),
                    format!("{ctx}: Nomt::open panicked: {p}"),
                );
                self.dead = true;
                return false;
            }
        };
        self.model.reconfigure(new_cfg.rollback, new_cfg.max_log as usize);
        self.cfg = new_cfg;
        self.db = Some(db);
        let db = self.db();
        let root = db.root().into_inner();
        if root != before_root {
            rep.fail(
                "C10",
                "root-changed",
                format!("{ctx}: root before close {} after open {}", hex8(&before_root), hex8(&root)),
            );
        }
        if db.sync_seqn() != before_seqn {
            rep.fail(
                "C10",
                "seqn-changed",
                format!("{ctx}: sync_seqn {} -> {}", before_seqn, db.sync_seqn()),
            );
        }
        let occ = db.hash_table_utilization();
        if occ.occupied != before_occ.occupied || occ.capacity != before_occ.capacity {
            rep.fail(
                "C10",
                "occupancy-changed",
                format!("{ctx}: hash_table_utilization {:?} -> {:?}", before_occ, occ),
            );
        }
        for k in &probe {
            let want = self.model.kv.get(k).map(|v| v.bytes.clone());
            rep.eval("C10", nontrivial);
            match guard(|| db.read(*k)) {
                Ok(Ok(got)) => {
                    if got != want {
                        rep.fail(
                            "C10",
                            "value-changed",
                            format!("{ctx}: after reopen read({}) = {} want {}", hex8(k), descr(&got), descr(&want)),
                        );
                    }
                }
                Ok(Err(e)) => rep.fail("C10", "read-error", format!("{ctx}: {e:#}")),
                Err(p) => rep.fail("C10", "read-panic", format!("{ctx}: {p}")),
            }
        }
        // proofs on a cold cache
        let view = self.model.kv.clone();
        if let Ok(sess) = guard(|| db.begin_session(SessionParams::default())) {
            let keys: Vec<Key> = probe.iter().take(24).copied().collect();
            let mut sub = rep.sub();
            sub.op_index = rep.op_index;
            self.check_proofs(&mut sub, &sess, &view, kv_root::<K>(&view), &keys, ctx, true);
            for f in &sub.findings {
                rep.fail("C10", &format!("proof-after-reopen:{}", f.sig), f.detail.clone());
            }
            rep.merge(sub);
        }
        true
    }

    pub fn full_trie(&self) -> nvcore::reftrie::RefTrie {
        kv_trie::<K>(&self.model.kv)
    }
}

pub fn probe_keys_of(kv: &Kv, rng: &mut Rng, batch_keys: &[Key], n_model: usize, n_absent: usize) -> Vec<Key> {
    let mut keys: Vec<Key> = batch_keys.to_vec();
    let all: Vec<Key> = if kv.len() <= 4096 {
        kv.keys().copied().collect()
    } else {
        let skip = kv.len() / 1024;
        let off = rng.usize_below(skip.max(1));
        kv.keys().skip(off).step_by(skip.max(1)).copied().collect()
    };
    if !all.is_empty() {
        for _ in 0..n_model {
            keys.push(*rng.pick(&all));
        }
        for _ in 0..n_absent {
            let base = *rng.pick(&all);
            let d = rng.usize_below(256);
            keys.push(diverge_at(rng, &base, d));
        }
    } else {
        for _ in 0..n_absent.min(4) {
            keys.push(rng.key());
        }
    }
    keys
}

pub fn descr(v: &Option<Vec<u8>>) -> String {
    match v {
        None => "None".into(),
        Some(b) => format!("Some(len={},{}..)", b.len(), hex8(b)),
    }
}

/// One-line summary of the database directory (meta fields and rollback segment files).
pub fn dir_summary(dir: &Path) -> String {
    let mut out = String::new();
    if let Ok(m) = std::fs::read(dir.join("meta")) {
        if m.len() >= 64 {
            let u32at = |o: usize| u32::from_le_bytes(m[o..o + 4].try_into().unwrap());
            let u64at = |o: usize| u64::from_le_bytes(m[o..o + 8].try_into().unwrap());
            out += &format!(
                "meta{{ln_fl={},ln_bump={},bbn_fl={},bbn_bump={},seqn={},rb_live=({},{})}}",
                u32at(8),
                u32at(12),
                u32at(16),
                u32at(20),
                u32at(24),
                u64at(48),
                u64at(56)
            );
        }
    }
    let mut segs = Vec::new();
    if let Ok(rd) = std::fs::read_dir(dir) {
        for e in rd.flatten() {
            let name = e.file_name().to_string_lossy().to_string();
            if name.starts_with("rollback") {
                let len = e.metadata().map(|m| m.len()).unwrap_or(0);
                // record ids inside
                let mut ids = Vec::new();
                if let Ok(b) = std::fs::read(e.path()) {
                    let mut pos = 0usize;
                    while pos + 12 <= b.len() {
                        let plen = u32::from_le_bytes(b[pos..pos + 4].try_into().unwrap()) as usize;
                        let id = u64::from_le_bytes(b[pos + 4..pos + 12].try_into().unwrap());
                        ids.push(id);
                        let end = pos + 12 + plen;
                        pos = (end + 4095) / 4096 * 4096;
                        if plen == 0 && id == 0 {
                            break;
                        }
                    }
                }
                segs.push(format!("{name}(len={len},ids={ids:?})"));
            }
        }
    }
    segs.sort();
    out += &format!(" segments=[{}]", segs.join(","));
    out
}

//! `nv` - runtime-monitoring harness for thrumdev/nomt.
//!
//!   nv check <ID> [--tier quick|thorough] [--seed N]     run a property check (parent process)
//!   nv child <ID> <tier> <seed> <shard> <nshards> <out> [--from I] [--only I]
//!   nv replay <ID> <file>

mod cfg;
mod decode;
mod econc;
mod eio;
mod elock;
mod io_rec;
mod shadow;
mod emodel;
mod gen;
mod model;
mod registry;
mod runner;
mod sut;

use std::process::ExitCode;

fn main() -> ExitCode {
    let args: Vec<String> = std::env::args().collect();
    if args.len() < 2 {
        eprintln!("usage: nv check <ID> [--tier quick|thorough] [--seed N] | nv replay <ID> <file>");
        return ExitCode::from(2);
    }
    match args[1].as_str() {
        "check" => runner::cmd_check(&args[2..]),
        "child" => runner::cmd_child(&args[2..]),
        "replay" => runner::cmd_replay(&args[2..]),
        "lockchild" => {
            let code = elock::lockchild(&args[2..]);
            unsafe { libc::_exit(code) }
        }
        "killchild" => {
            let code = eio::killchild(&args[2..]);
            unsafe { libc::_exit(code) }
        }
        "elidetest" => {
            elidetest();
            ExitCode::SUCCESS
        }
        "lockfail" => {
            elock::stress_reopen_after_failure();
            ExitCode::SUCCESS
        }
        "locktest" => {
            locktest();
            ExitCode::SUCCESS
        }
        other => {
            eprintln!("unknown command {other}");
            ExitCode::from(2)
        }
    }
}

fn locktest() {
    use nomt::{KeyReadWrite, SessionParams};
    type Db = nomt::Nomt<nomt::hasher::Blake3Hasher>;
    let dir = std::path::PathBuf::from(format!("/dev/shm/nv-locktest.{}", std::process::id()));
    let _ = std::fs::remove_dir_all(&dir);
    let mut c = cfg::Cfg::default_small();
    c.commit_concurrency = 4;
    c.warm_up = std::env::var("NO_WARM").is_err();
    c.rollback = true;
    let mut fails = 0;
    let iters: u64 = std::env::var("ITERS").ok().and_then(|v| v.parse().ok()).unwrap_or(300);
    if let Some(cc) = std::env::var("CC").ok().and_then(|v| v.parse().ok()) {
        c.commit_concurrency = cc;
    }
    for i in 0..iters {
        let db = Db::open(c.options(&dir)).unwrap();
        let s = db.begin_session(SessionParams::default());
        let mut k = [0u8; 32];
        k[..8].copy_from_slice(&i.to_be_bytes());
        s.warm_up(k);
        let f = s.finish(vec![(k, KeyReadWrite::Write(Some(vec![1, 2, 3])))]).unwrap();
        f.commit(&db).unwrap();
        // a session that is dropped without finishing
        if std::env::var("NO_S2").is_err() {
            let s2 = db.begin_session(SessionParams::default());
            if std::env::var("NO_S2_WARM").is_err() {
                s2.warm_up(k);
            }
            let _ = s2.read(k);
            drop(s2);
        }
        drop(db);
        match Db::open(c.options(&dir)) {
            Ok(db) => drop(db),
            Err(e) => {
                fails += 1;
                let mut names = Vec::new();
                for t in std::fs::read_dir("/proc/self/task").unwrap() {
                    let t = t.unwrap();
                    names.push(std::fs::read_to_string(t.path().join("comm")).unwrap_or_default().trim().to_string());
                }
                println!("iter {i}: reopen failed: {e:#}; threads: {names:?}");
                std::thread::sleep(std::time::Duration::from_millis(200));
                match Db::open(c.options(&dir)) {
                    Ok(db) => {
                        println!("   retry after 200ms: ok");
                        drop(db)
                    }
                    Err(e) => println!("   retry after 200ms: still failing: {e:#}"),
                }
            }
        }
    }
    println!("failures: {fails}/{iters}");
    let _ = std::fs::remove_dir_all(&dir);
}

fn elidetest() {
    // debug: a commit that rewrites the leaf of an un-compressed branch separator which is
    // followed by further un-compressed separators.
    use nomt::{KeyReadWrite, SessionParams};
    type Db = nomt::Nomt<nomt::hasher::Blake3Hasher>;
    let dir = std::path::PathBuf::from(format!("/dev/shm/nv-chunk.{}", std::process::id()));
    let _ = std::fs::remove_dir_all(&dir);
    let mut c = cfg::Cfg::default_small();
    c.buckets = 8192;
    let db = Db::open(c.options(&dir)).unwrap();
    let commit = |batch: Vec<([u8; 32], Option<Vec<u8>>)>| {
        let s = db.begin_session(SessionParams::default());
        let mut b: Vec<_> = batch.into_iter().map(|(k, v)| (k, KeyReadWrite::Write(v))).collect();
        b.sort_by(|a, b| a.0.cmp(&b.0));
        s.finish(b).unwrap().commit(&db).unwrap();
    };
    let ck = |i: u32| {
        let mut k = [0u8; 32];
        k[16..20].copy_from_slice(&i.to_be_bytes());
        k[31] = 1;
        k
    };
    let far = |i: u8| {
        let mut k = [0u8; 32];
        k[0] = 0xff;
        k[1] = i;
        k
    };
    let n: u32 = std::env::var("N").ok().and_then(|v| v.parse().ok()).unwrap_or(520);
    commit((0..n).map(|i| (ck(i), Some(vec![(i % 251) as u8; 1300]))).collect());
    commit((1..=12u8).map(|i| (far(i), Some(vec![0xf0; 1300]))).collect());
    println!("two commits done; now overwrite far(1)");
    commit(vec![(far(1), Some(vec![7; 1200]))]);
    println!("overwrite of first far key ok");
    commit(vec![(far(5), Some(vec![8; 1200]))]);
    println!("ok: {:?}", db.read(far(5)).unwrap().map(|v| v.len()));
    let _ = std::fs::remove_dir_all(&dir);
}

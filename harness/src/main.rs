//! `nv` - runtime-monitoring harness for thrumdev/nomt.
//!
//!   nv check <ID> [--tier quick|thorough] [--seed N]     run a property check (parent process)
//!   nv child <ID> <tier> <seed> <shard> <nshards> <out> [--from I] [--only I]
//!   nv replay <ID> <file>

mod cfg;
mod decode;
mod econc;
mod eio;
mod elock;
mod io_rec;
mod shadow;
mod emodel;
mod gen;
mod model;
mod registry;
mod runner;
mod sut;

use std::process::ExitCode;

fn main() -> ExitCode {
    let args: Vec<String> = std::env::args().collect();
    if args.len() < 2 {
        eprintln!("usage: nv check <ID> [--tier quick|thorough] [--seed N] | nv replay <ID> <file>");
        return ExitCode::from(2);
    }
    match args[1].as_str() {
        "check" => runner::cmd_check(&args[2..]),
        "child" => runner::cmd_child(&args[2..]),
        "replay" => runner::cmd_replay(&args[2..]),
        "lockchild" => {
            let code = elock::lockchild(&args[2..]);
            unsafe { libc::_exit(code) }
        }
        "killchild" => {
            let code = eio::killchild(&args[2..]);
            unsafe { libc::_exit(code) }
        }
        "elidetest" => {
            elidetest();
            ExitCode::SUCCESS
        }
        "locktest" => {
            locktest();
            ExitCode::SUCCESS
        }
        other => {
            eprintln!("unknown command {other}");
            ExitCode::from(2)
        }
    }
}

fn locktest() {
    use nomt::{KeyReadWrite, SessionParams};
    type Db = nomt::Nomt<nomt::hasher::Blake3Hasher>;
    let dir = std::path::PathBuf::from(format!("/dev/shm/nv-locktest.{}", std::process::id()));
    let _ = std::fs::remove_dir_all(&dir);
    let mut c = cfg::Cfg::default_small();
    c.commit_concurrency = 4;
    c.warm_up = std::env::var("NO_WARM").is_err();
    c.rollback = true;
    let mut fails = 0;
    for i in 0..300u64 {
        let db = Db::open(c.options(&dir)).unwrap();
        let s = db.begin_session(SessionParams::default());
        let mut k = [0u8; 32];
        k[..8].copy_from_slice(&i.to_be_bytes());
        s.warm_up(k);
        let f = s.finish(vec![(k, KeyReadWrite::Write(Some(vec![1, 2, 3])))]).unwrap();
        f.commit(&db).unwrap();
        // a session that is dropped without finishing
        if std::env::var("NO_S2").is_err() {
            let s2 = db.begin_session(SessionParams::default());
            if std::env::var("NO_S2_WARM").is_err() {
                s2.warm_up(k);
            }
            let _ = s2.read(k);
            drop(s2);
        }
        drop(db);
        match Db::open(c.options(&dir)) {
            Ok(db) => drop(db),
            Err(e) => {
                fails += 1;
                let mut names = Vec::new();
                for t in std::fs::read_dir("/proc/self/task").unwrap() {
                    let t = t.unwrap();
                    names.push(std::fs::read_to_string(t.path().join("comm")).unwrap_or_default().trim().to_string());
                }
                println!("iter {i}: reopen failed: {e:#}; threads: {names:?}");
                std::thread::sleep(std::time::Duration::from_millis(200));
                match Db::open(c.options(&dir)) {
                    Ok(db) => {
                        println!("   retry after 200ms: ok");
                        drop(db)
                    }
                    Err(e) => println!("   retry after 200ms: still failing: {e:#}"),
                }
            }
        }
    }
    println!("failures: {fails}/300");
    let _ = std::fs::remove_dir_all(&dir);
}

fn elidetest() {
    use nomt::{KeyReadWrite, SessionParams};
    type Db = nomt::Nomt<nomt::hasher::Blake3Hasher>;
    let dir = std::path::PathBuf::from(format!("/dev/shm/nv-elide.{}", std::process::id()));
    let _ = std::fs::remove_dir_all(&dir);
    let mut c = cfg::Cfg::default_small();
    c.buckets = 1024;
    let db = Db::open(c.options(&dir)).unwrap();
    let s = db.begin_session(SessionParams::default());
    let mut batch = Vec::new();
    for i in 0..10u8 {
        let mut k = [0u8; 32];
        k[0] = 0xAB;
        k[1] = 0xC0 | (i & 0x0f); // 12 shared bits 0xABC, then 4 varying bits
        k[5] = i;
        batch.push((k, KeyReadWrite::Write(Some(vec![i; 4]))));
    }
    // some other keys so that the root has structure
    for i in 0..3u8 {
        let mut k = [0u8; 32];
        k[0] = i * 40 + 1;
        batch.push((k, KeyReadWrite::Write(Some(vec![i; 4]))));
    }
    batch.sort_by(|a, b| a.0.cmp(&b.0));
    s.finish(batch).unwrap().commit(&db).unwrap();
    let occ = db.hash_table_utilization();
    println!("occupied {:?}", occ);
    let meta = decode::read_meta(&dir).unwrap();
    let n = meta.bitbox_num_pages as u64;
    let mp = (n + 4095) / 4096;
    let ht = decode::StoreFile::open(&dir.join("ht")).unwrap();
    let map = ht.page(0).unwrap();
    for b in 0..n {
        if map[b as usize] & 0x80 != 0 {
            let p = ht.page((mp + b) as u32).unwrap();
            let label: [u8; 32] = p[4096 - 32..].try_into().unwrap();
            let pid = decode::path_of_label(&label).unwrap();
            let el = u64::from_le_bytes(p[4096 - 40..4096 - 32].try_into().unwrap());
            let nz = (0..126).filter(|i| p[i * 32..i * 32 + 32] != [0u8; 32]).count();
            println!("bucket {b}: page depth {} label ..{:02x}{:02x} elided {:#018x} nonzero nodes {nz}", pid.len(), label[30], label[31], el);
        }
    }
    drop(db);
    let _ = std::fs::remove_dir_all(&dir);
}

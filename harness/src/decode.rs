//! Independent decoder of the on-disk image, written from the layout comments of the formats
//! (`store/meta.rs`, `beatree/branch/node.rs`, `beatree/leaf/node.rs`, `beatree/ops/overflow.rs`,
//! `beatree/allocator/free_list.rs`, `bitbox/ht_file.rs`, `bitbox/meta_map.rs`, `core/page.rs`).
//! It shares no code with NOMT's own readers; the only thing taken over is
//! the xxh3 seed rule for the bucket hash (twox-hash crate).

use nvcore::reftrie::{bit, Hash, HashKind, Key, RNode, RefTrie};
use std::collections::{BTreeMap, BTreeSet, HashMap};
use std::fs::File;
use std::os::unix::fs::FileExt;
use std::path::Path;

pub const PAGE: usize = 4096;

#[derive(Debug, Clone, Default)]
pub struct Meta {
    pub ln_freelist_pn: u32,
    pub ln_bump: u32,
    pub bbn_freelist_pn: u32,
    pub bbn_bump: u32,
    pub sync_seqn: u32,
    pub bitbox_num_pages: u32,
    pub bitbox_seed: [u8; 16],
    pub rollback_start_live: u64,
    pub rollback_end_live: u64,
}

pub fn read_meta(dir: &Path) -> Result<Meta, String> {
    let b = std::fs::read(dir.join("meta")).map_err(|e| format!("meta: {e}"))?;
    if b.len() < 64 {
        return Err("meta shorter than 64 bytes".into());
    }
    if &b[0..4] != b"NOMT" {
        return Err("meta: bad magic".into());
    }
    let u32at = |o: usize| u32::from_le_bytes(b[o..o + 4].try_into().unwrap());
    let u64at = |o: usize| u64::from_le_bytes(b[o..o + 8].try_into().unwrap());
    Ok(Meta {
        ln_freelist_pn: u32at(8),
        ln_bump: u32at(12),
        bbn_freelist_pn: u32at(16),
        bbn_bump: u32at(20),
        sync_seqn: u32at(24),
        bitbox_num_pages: u32at(28),
        bitbox_seed: b[32..48].try_into().unwrap(),
        rollback_start_live: u64at(48),
        rollback_end_live: u64at(56),
    })
}

#[derive(Default, Debug)]
pub struct FreeListInfo {
    /// pages that store the list itself
    pub list_pages: Vec<u32>,
    /// free page numbers
    pub items: Vec<u32>,
}

pub struct StoreFile {
    pub file: File,
    pub len_pages: u32,
}

impl StoreFile {
    pub fn open(path: &Path) -> Result<Self, String> {
        let file = File::open(path).map_err(|e| format!("{}: {e}", path.display()))?;
        let len = file.metadata().map_err(|e| e.to_string())?.len();
        Ok(StoreFile {
            file,
            len_pages: (len / PAGE as u64) as u32,
        })
    }

    pub fn page(&self, pn: u32) -> Result<Vec<u8>, String> {
        let mut buf = vec![0u8; PAGE];
        self.file
            .read_exact_at(&mut buf, pn as u64 * PAGE as u64)
            .map_err(|e| format!("read page {pn}: {e}"))?;
        Ok(buf)
    }
}

fn walk_free_list(f: &StoreFile, head: u32, bump: u32, issues: &mut Vec<String>, what: &str) -> FreeListInfo {
    let mut info = FreeListInfo::default();
    let mut pn = head;
    let mut guard = 0;
    while pn != 0 {
        guard += 1;
        if guard > 1_000_000 || info.list_pages.contains(&pn) {
            issues.push(format!("{what}: free-list chain loops at page {pn}"));
            break;
        }
        if pn >= bump {
            issues.push(format!("{what}: free-list page {pn} is beyond the allocation frontier {bump}"));
            break;
        }
        let Ok(p) = f.page(pn) else {
            issues.push(format!("{what}: free-list page {pn} unreadable"));
            break;
        };
        info.list_pages.push(pn);
        let prev = u32::from_le_bytes(p[0..4].try_into().unwrap());
        let count = u16::from_le_bytes(p[4..6].try_into().unwrap()) as usize;
        if count > (PAGE - 6) / 4 {
            issues.push(format!("{what}: free-list page {pn} claims {count} items"));
            break;
        }
        for i in 0..count {
            let s = 6 + i * 4;
            info.items.push(u32::from_le_bytes(p[s..s + 4].try_into().unwrap()));
        }
        pn = prev;
    }
    info
}

fn get_bit(bytes: &[u8], i: usize) -> bool {
    (bytes[i / 8] >> (7 - (i % 8))) & 1 == 1
}

fn put_bit(key: &mut Key, i: usize, v: bool) {
    if v {
        key[i / 8] |= 1 << (7 - (i % 8));
    }
}

pub struct Bbn {
    pub pn: u32,
    pub seps: Vec<Key>,
    pub ptrs: Vec<u32>,
    pub prefix_len: usize,
    pub prefix_compressed: usize,
}

fn parse_bbn(pn: u32, p: &[u8]) -> Result<Bbn, String> {
    let n = u16::from_le_bytes(p[4..6].try_into().unwrap()) as usize;
    let prefix_compressed = u16::from_le_bytes(p[6..8].try_into().unwrap()) as usize;
    let prefix_len = u16::from_le_bytes(p[8..10].try_into().unwrap()) as usize;
    if n == 0 {
        return Err(format!("branch page {pn}: zero separators"));
    }
    if 10 + n * 2 + n * 4 > PAGE || prefix_len > 256 || prefix_compressed > n {
        return Err(format!("branch page {pn}: implausible header n={n} prefix_len={prefix_len} compressed={prefix_compressed}"));
    }
    let cells: Vec<usize> = (0..n)
        .map(|i| u16::from_le_bytes(p[10 + i * 2..12 + i * 2].try_into().unwrap()) as usize)
        .collect();
    let bits = &p[10 + n * 2..];
    let mut seps = Vec::with_capacity(n);
    for i in 0..n {
        let start = prefix_len + if i == 0 { 0 } else { cells[i - 1] };
        let end = prefix_len + cells[i];
        if end < start || (end + 7) / 8 > bits.len() - n * 4 {
            return Err(format!("branch page {pn}: separator {i} has bit range {start}..{end}"));
        }
        let mut key = [0u8; 32];
        let mut out = 0usize;
        if i < prefix_compressed {
            for b in 0..prefix_len {
                put_bit(&mut key, out, get_bit(bits, b));
                out += 1;
            }
        }
        if out + (end - start) > 256 {
            return Err(format!("branch page {pn}: separator {i} longer than 256 bits"));
        }
        for b in start..end {
            put_bit(&mut key, out, get_bit(bits, b));
            out += 1;
        }
        seps.push(key);
    }
    let ptrs: Vec<u32> = (0..n)
        .map(|i| {
            let o = PAGE - (n - i) * 4;
            u32::from_le_bytes(p[o..o + 4].try_into().unwrap())
        })
        .collect();
    Ok(Bbn {
        pn,
        seps,
        ptrs,
        prefix_len,
        prefix_compressed,
    })
}

pub enum DecVal {
    Inline(Vec<u8>),
    Overflow { size: usize, hash: Hash, bytes: Vec<u8>, pages: Vec<u32> },
}

impl DecVal {
    pub fn bytes(&self) -> &[u8] {
        match self {
            DecVal::Inline(b) => b,
            DecVal::Overflow { bytes, .. } => bytes,
        }
    }
}

#[derive(Default)]
pub struct Decoded {
    pub meta: Meta,
    pub kv: BTreeMap<Key, DecVal>,
    pub issues: Vec<String>,
    pub feats: BTreeMap<String, u64>,
    pub ht_full: u64,
    pub ht_tombstones: u64,
    pub ht_distinct_pages: u64,
    pub ln_accounting: (u64, u64, u64, u64), // live, free items, list pages, bump-1
    pub bbn_accounting: (u64, u64, u64, u64),
    // what the image references (for C17)
    pub ln_live: BTreeSet<u32>,
    pub ln_free_items: BTreeSet<u32>,
    pub ln_list_pages: BTreeSet<u32>,
    pub bbn_live: BTreeSet<u32>,
    pub bbn_free_items: BTreeSet<u32>,
    pub bbn_list_pages: BTreeSet<u32>,
    pub ln_len_pages: u32,
    pub bbn_len_pages: u32,
    /// ht page numbers (file pages) of full buckets
    pub ht_full_pages: BTreeSet<u64>,
    pub ht_meta_pages: u64,
}

impl Decoded {
    fn feat(&mut self, k: &str, n: u64) {
        *self.feats.entry(k.to_string()).or_default() += n;
    }
    fn feat_max(&mut self, k: &str, n: u64) {
        let e = self.feats.entry(k.to_string()).or_default();
        *e = (*e).max(n);
    }
}

/// Decode the value files. Structural violations go to `issues`.
pub fn decode_beatree<K: HashKind>(dir: &Path, d: &mut Decoded) {
    let meta = d.meta.clone();
    let (Ok(bbn), Ok(ln)) = (StoreFile::open(&dir.join("bbn")), StoreFile::open(&dir.join("ln"))) else {
        d.issues.push("cannot open bbn/ln".into());
        return;
    };
    if meta.bbn_bump > bbn.len_pages || meta.ln_bump > ln.len_pages {
        d.issues.push(format!(
            "allocation frontier beyond file end: bbn_bump {} (file {} pages), ln_bump {} (file {} pages)",
            meta.bbn_bump, bbn.len_pages, meta.ln_bump, ln.len_pages
        ));
        return;
    }
    let mut issues = Vec::new();
    let bbn_fl = walk_free_list(&bbn, meta.bbn_freelist_pn, meta.bbn_bump, &mut issues, "bbn");
    let ln_fl = walk_free_list(&ln, meta.ln_freelist_pn, meta.ln_bump, &mut issues, "ln");
    d.feat_max("max_ln_freelist_pages", ln_fl.list_pages.len() as u64);
    d.feat_max("max_ln_free_items", ln_fl.items.len() as u64);

    // ---- branch nodes
    let bbn_tracked: BTreeSet<u32> = bbn_fl.items.iter().chain(bbn_fl.list_pages.iter()).copied().collect();
    let mut bbns: Vec<Bbn> = Vec::new();
    let mut bbn_live: BTreeSet<u32> = BTreeSet::new();
    for pn in 1..meta.bbn_bump {
        if bbn_tracked.contains(&pn) {
            continue;
        }
        let Ok(p) = bbn.page(pn) else { continue };
        if p.iter().all(|b| *b == 0) {
            // an all-zero page below the frontier that is not on the free list: unreferenced
            issues.push(format!("bbn page {pn} below the frontier is neither a branch node nor on the free list (leaked)"));
            continue;
        }
        let stored_pn = u32::from_le_bytes(p[0..4].try_into().unwrap());
        if stored_pn != pn {
            issues.push(format!("bbn page {pn} carries page number {stored_pn}"));
            continue;
        }
        match parse_bbn(pn, &p) {
            Ok(b) => {
                bbn_live.insert(pn);
                bbns.push(b);
            }
            Err(e) => issues.push(e),
        }
    }
    bbns.sort_by(|a, b| a.seps[0].cmp(&b.seps[0]));
    d.feat_max("max_branch_nodes", bbns.len() as u64);
    // separators strictly increasing within and across nodes
    let mut flat: Vec<(Key, u32, u32)> = Vec::new(); // separator, leaf pn, bbn pn
    for b in &bbns {
        for i in 0..b.seps.len() {
            if let Some(last) = flat.last() {
                if last.0 >= b.seps[i] {
                    issues.push(format!(
                        "separators not strictly increasing: branch page {} separator {} <= previous (branch page {})",
                        b.pn, i, last.2
                    ));
                }
            }
            flat.push((b.seps[i], b.ptrs[i], b.pn));
        }
        if b.prefix_compressed < b.seps.len() {
            d.feat("branch_nodes_with_uncompressed_separators", 1);
        }
        if b.prefix_len > 0 {
            d.feat("branch_nodes_with_prefix", 1);
        }
    }
    if let Some(first) = flat.first() {
        if first.0 != [0u8; 32] {
            issues.push("the first leaf's separator is not the all-zero key".into());
        }
    }

    // ---- leaves
    let ln_tracked: BTreeSet<u32> = ln_fl.items.iter().chain(ln_fl.list_pages.iter()).copied().collect();
    let mut ln_used: HashMap<u32, &'static str> = HashMap::new();
    let mut kv: BTreeMap<Key, DecVal> = BTreeMap::new();
    let mut prev_key: Option<Key> = None;
    if let Ok(dd) = std::env::var("NV_DUMP_BBN") {
        use std::io::Write;
        let _ = std::fs::create_dir_all(&dd);
        let n = std::fs::read_dir(&dd).map(|r| r.count()).unwrap_or(0);
        if let Ok(mut f) = std::fs::File::create(format!("{dd}/bbn.{n:03}.txt")) {
            for b in &bbns {
                let _ = writeln!(f, "# bbn page {} n={} prefix_compressed={} prefix_len={}", b.pn, b.seps.len(), b.prefix_compressed, b.prefix_len);
                for i in 0..b.seps.len() {
                    let _ = writeln!(f, "{} {}", hex32(&b.seps[i]), b.ptrs[i]);
                }
            }
        }
    }
    for (li, (sep, leaf_pn, bpn)) in flat.iter().enumerate() {
        let next_sep = flat.get(li + 1).map(|x| x.0);
        if *leaf_pn == 0 || *leaf_pn >= meta.ln_bump {
            issues.push(format!("branch page {bpn} points to leaf page {leaf_pn} outside [1, {})", meta.ln_bump));
            continue;
        }
        if ln_tracked.contains(leaf_pn) {
            issues.push(format!("leaf page {leaf_pn} is referenced by branch page {bpn} and is on the free list"));
        }
        if ln_used.insert(*leaf_pn, "leaf").is_some() {
            issues.push(format!("ln page {leaf_pn} is used twice"));
        }
        let Ok(p) = ln.page(*leaf_pn) else { continue };
        let n = u16::from_le_bytes(p[0..2].try_into().unwrap()) as usize;
        if n == 0 || 2 + n * 34 > PAGE {
            issues.push(format!("leaf page {leaf_pn}: implausible cell count {n}"));
            continue;
        }
        d.feat_max("max_cells_in_leaf", n as u64);
        if let Ok(dd) = std::env::var("NV_DUMP_BBN") {
            use std::io::Write;
            if let Ok(mut f) = std::fs::OpenOptions::new().create(true).append(true).open(format!("{dd}/leaves.{}.txt", d.meta.sync_seqn)) {
                let k0: Key = p[2..34].try_into().unwrap();
                let o = 2 + (n - 1) * 34;
                let k1: Key = p[o..o + 32].try_into().unwrap();
                let _ = writeln!(f, "leaf {leaf_pn} sep={} n={n} first={} last={}", hex32(sep), hex32(&k0), hex32(&k1));
            }
        }
        let cell = |i: usize| -> (Key, usize, bool) {
            let o = 2 + i * 34;
            let key: Key = p[o..o + 32].try_into().unwrap();
            let raw = u16::from_le_bytes(p[o + 32..o + 34].try_into().unwrap());
            (key, (raw & 0x7fff) as usize, raw & 0x8000 != 0)
        };
        for i in 0..n {
            let (key, off, overflow) = cell(i);
            let end = if i + 1 < n { cell(i + 1).1 } else { PAGE };
            if off < 2 + n * 34 || end < off || end > PAGE {
                issues.push(format!("leaf page {leaf_pn}: cell {i} has value range {off}..{end}"));
                continue;
            }
            if let Some(pk) = prev_key {
                if pk >= key {
                    issues.push(format!("keys not strictly increasing at leaf page {leaf_pn} cell {i}"));
                }
            }
            prev_key = Some(key);
            if key < *sep || next_sep.map_or(false, |ns| key >= ns) {
                issues.push(format!(
                    "leaf page {leaf_pn} cell {i}: key outside its separator range (n={n} key={} sep={} next_sep={})",
                    hex32(&key),
                    hex32(sep),
                    next_sep.map_or("-".to_string(), |k| hex32(&k))
                ));
            }
            let raw = &p[off..end];
            let val = if !overflow {
                if raw.len() > 1332 {
                    issues.push(format!("leaf page {leaf_pn} cell {i}: inline value of {} bytes", raw.len()));
                }
                DecVal::Inline(raw.to_vec())
            } else {
                if raw.len() < 44 || raw.len() % 4 != 0 || raw.len() > 40 + 15 * 4 {
                    issues.push(format!("leaf page {leaf_pn} cell {i}: overflow cell of {} bytes", raw.len()));
                    continue;
                }
                let size = u64::from_le_bytes(raw[0..8].try_into().unwrap()) as usize;
                let hash: Hash = raw[8..40].try_into().unwrap();
                let mut pages: Vec<u32> = raw[40..].chunks(4).map(|c| u32::from_le_bytes(c.try_into().unwrap())).collect();
                let mut bytes = Vec::with_capacity(size);
                let mut i_pg = 0;
                let mut bad = false;
                while bytes.len() < size {
                    if i_pg >= pages.len() {
                        issues.push(format!("overflow value of key in leaf {leaf_pn}: chain ends after {} of {} bytes", bytes.len(), size));
                        bad = true;
                        break;
                    }
                    let opn = pages[i_pg];
                    i_pg += 1;
                    if opn == 0 || opn >= meta.ln_bump {
                        issues.push(format!("overflow page {opn} outside [1, {})", meta.ln_bump));
                        bad = true;
                        break;
                    }
                    if ln_tracked.contains(&opn) {
                        issues.push(format!("overflow page {opn} is in use and on the free list"));
                    }
                    if ln_used.insert(opn, "overflow").is_some() {
                        issues.push(format!("ln page {opn} is used twice"));
                    }
                    let Ok(op) = ln.page(opn) else {
                        bad = true;
                        break;
                    };
                    let np = u16::from_le_bytes(op[0..2].try_into().unwrap()) as usize;
                    let nb = u16::from_le_bytes(op[2..4].try_into().unwrap()) as usize;
                    if 4 + np * 4 + nb > PAGE {
                        issues.push(format!("overflow page {opn}: header n_pointers={np} n_bytes={nb}"));
                        bad = true;
                        break;
                    }
                    for j in 0..np {
                        pages.push(u32::from_le_bytes(op[4 + j * 4..8 + j * 4].try_into().unwrap()));
                    }
                    bytes.extend_from_slice(&op[4 + np * 4..4 + np * 4 + nb]);
                }
                if !bad {
                    if bytes.len() != size {
                        issues.push(format!("overflow value: {} bytes found, {} announced", bytes.len(), size));
                    }
                    if i_pg != pages.len() {
                        issues.push(format!("overflow value: {} pages referenced, {} needed", pages.len(), i_pg));
                    }
                    if K::h(&bytes) != hash {
                        issues.push(format!("overflow value in leaf {leaf_pn}: stored value hash does not match the bytes"));
                    }
                    if size <= 1332 {
                        issues.push(format!("overflow form used for a {size}-byte value"));
                    }
                }
                d.feat_max("max_overflow_chain_pages", pages.len() as u64);
                d.feat("overflow_values_decoded", 1);
                DecVal::Overflow { size, hash, bytes, pages }
            };
            if kv.insert(key, val).is_some() {
                issues.push(format!("key present in two leaves (second: page {leaf_pn})"));
            }
        }
    }
    d.feat_max("max_leaves", flat.len() as u64);

    // ---- page accounting (C16: nothing both free and in use; C19: nothing leaked)
    let account = |what: &str, bump: u32, live: &BTreeSet<u32>, fl: &FreeListInfo, issues: &mut Vec<String>| -> (u64, u64, u64, u64) {
        let mut seen: BTreeMap<u32, &str> = BTreeMap::new();
        for pn in live {
            seen.insert(*pn, "live");
        }
        for pn in &fl.list_pages {
            if let Some(prev) = seen.insert(*pn, "free-list page") {
                issues.push(format!("{what} page {pn} is a free-list page and also {prev}"));
            }
        }
        for pn in &fl.items {
            if *pn == 0 || *pn >= bump {
                issues.push(format!("{what} free-list item {pn} outside [1, {bump})"));
                continue;
            }
            if let Some(prev) = seen.insert(*pn, "free") {
                issues.push(format!("{what} page {pn} is on the free list and also {prev}"));
            }
        }
        let mut leaked = Vec::new();
        for pn in 1..bump {
            if !seen.contains_key(&pn) {
                leaked.push(pn);
            }
        }
        if !leaked.is_empty() {
            issues.push(format!(
                "LEAK {what}: {} page(s) below the frontier {bump} are neither in use nor on the free list (first: {:?})",
                leaked.len(),
                &leaked[..leaked.len().min(6)]
            ));
        }
        (live.len() as u64, fl.items.len() as u64, fl.list_pages.len() as u64, bump.saturating_sub(1) as u64)
    };
    let ln_live: BTreeSet<u32> = ln_used.keys().copied().collect();
    d.ln_accounting = account("ln", meta.ln_bump, &ln_live, &ln_fl, &mut issues);
    d.bbn_accounting = account("bbn", meta.bbn_bump, &bbn_live, &bbn_fl, &mut issues);
    d.ln_free_items = ln_fl.items.iter().copied().collect();
    d.ln_list_pages = ln_fl.list_pages.iter().copied().collect();
    d.bbn_free_items = bbn_fl.items.iter().copied().collect();
    d.bbn_list_pages = bbn_fl.list_pages.iter().copied().collect();
    d.ln_live = ln_live;
    d.bbn_live = bbn_live;
    d.ln_len_pages = ln.len_pages;
    d.bbn_len_pages = bbn.len_pages;
    d.kv = kv;
    d.issues.extend(issues);
}

// ---- page labels. The label written into a page is what `PageId::encode` produces:
//   word = 0; for each 6-bit child index c on the path from the root: word = (word + c + 1) << 6
// (note the trailing shift: this is 64x the id formula quoted in core/src/page.rs, and
// `PageId::decode` does not invert it; the decoder therefore has its own codec and trusts only
// the bytes actually found on disk).

fn label_shl6(x: &mut [u8; 32]) {
    let mut carry = 0u16;
    for i in (0..32).rev() {
        let v = ((x[i] as u16) << 6) | carry;
        x[i] = (v & 0xff) as u8;
        carry = v >> 8;
    }
}

fn label_shr6(x: &mut [u8; 32]) {
    let mut carry = 0u16;
    for i in 0..32 {
        let v = (carry << 8) | x[i] as u16;
        x[i] = (v >> 6) as u8;
        carry = v & 0x3f;
    }
}

fn label_add_small(x: &mut [u8; 32], mut a: u16) {
    for i in (0..32).rev() {
        let v = x[i] as u16 + a;
        x[i] = (v & 0xff) as u8;
        a = v >> 8;
        if a == 0 {
            break;
        }
    }
}

fn label_sub1(x: &mut [u8; 32]) {
    for i in (0..32).rev() {
        if x[i] > 0 {
            x[i] -= 1;
            break;
        }
        x[i] = 0xff;
    }
}

/// Path of child indices -> label.
pub fn label_of_path(path: &[u8]) -> [u8; 32] {
    let mut w = [0u8; 32];
    for c in path {
        label_add_small(&mut w, *c as u16 + 1);
        label_shl6(&mut w);
    }
    w
}

/// Label -> path of child indices (None if the low six bits are not zero or the path is too long).
pub fn path_of_label(label: &[u8; 32]) -> Option<Vec<u8>> {
    if label[31] & 0x3f != 0 {
        return None;
    }
    let mut w = *label;
    label_shr6(&mut w);
    let mut path = Vec::new();
    while w != [0u8; 32] {
        label_sub1(&mut w);
        path.push(w[31] & 0x3f);
        label_shr6(&mut w);
        if path.len() > 42 {
            return None;
        }
    }
    path.reverse();
    Some(path)
}

fn bucket_hash(label: &[u8; 32], seed: &[u8; 16]) -> u64 {
    let s = u64::from_be_bytes(seed[..8].try_into().unwrap());
    twox_hash::xxhash3_64::Hasher::oneshot_with_seed(s, label)
}

/// Decode the hash table and compare every reachable node with the reference trie.
pub fn decode_bitbox(dir: &Path, d: &mut Decoded, trie: &RefTrie) {
    let meta = d.meta.clone();
    let n = meta.bitbox_num_pages as u64;
    let Ok(ht) = StoreFile::open(&dir.join("ht")) else {
        d.issues.push("cannot open ht".into());
        return;
    };
    let meta_pages = (n + 4095) / 4096;
    if ht.len_pages as u64 != meta_pages + n {
        d.issues.push(format!("ht file has {} pages, expected {}", ht.len_pages, meta_pages + n));
        return;
    }
    let mut map = Vec::with_capacity((meta_pages * 4096) as usize);
    for pn in 0..meta_pages {
        match ht.page(pn as u32) {
            Ok(p) => map.extend_from_slice(&p),
            Err(e) => {
                d.issues.push(e);
                return;
            }
        }
    }
    let mut stored: HashMap<[u8; 32], (u64, Vec<u8>)> = HashMap::new();
    let mut issues = Vec::new();
    d.ht_meta_pages = meta_pages;
    for b in 0..n {
        let m = map[b as usize];
        if m == 0 {
            continue;
        }
        if m == 0x7f {
            d.ht_tombstones += 1;
            continue;
        }
        if m & 0x80 == 0 {
            issues.push(format!("bucket {b}: meta byte {m:#x} is neither empty, tombstone nor full"));
            continue;
        }
        d.ht_full += 1;
        d.ht_full_pages.insert(meta_pages + b);
        let Ok(page) = ht.page((meta_pages + b) as u32) else { continue };
        let label: [u8; 32] = page[PAGE - 32..].try_into().unwrap();
        match path_of_label(&label) {
            Some(path) if label_of_path(&path) == label => {}
            _ => {
                issues.push(format!("bucket {b}: full bucket holds a page with an invalid label"));
                continue;
            }
        }
        let h = bucket_hash(&label, &meta.bitbox_seed);
        let tag = ((h >> 57) as u8) ^ 0x80;
        if tag != m {
            issues.push(format!("bucket {b}: meta byte {m:#x} does not match the page's hash tag {tag:#x}"));
        }
        // reachable by triangular probing from h % n before any empty bucket
        let mut bucket = h % n;
        let mut step = 0u64;
        let mut reached = false;
        let mut probes = 0u64;
        while step <= 2 * n {
            bucket = (bucket + step) % n;
            step += 1;
            probes += 1;
            if bucket == b {
                reached = true;
                break;
            }
            if map[bucket as usize] == 0 {
                break;
            }
        }
        d.feat_max("max_probe_length", probes);
        if !reached {
            issues.push(format!("bucket {b}: stored page is not reachable by its probe sequence (an empty bucket or the end comes first)"));
        }
        if let Some((other, _)) = stored.insert(label, (b, page)) {
            issues.push(format!("merkle page stored twice: buckets {other} and {b}"));
        }
    }
    d.ht_distinct_pages = stored.len() as u64;
    d.feat_max("max_stored_merkle_pages", stored.len() as u64);
    d.feat_max("max_tombstones", d.ht_tombstones);

    // ---- node-by-node comparison with the reference trie, walking from the root page
    let root_label = [0u8; 32];
    let root_is_internal = matches!(trie.nodes[trie.root as usize], RNode::Int { .. });
    let mut visited: BTreeSet<[u8; 32]> = BTreeSet::new();
    let mut elided_seen = 0u64;
    let mut nodes_checked = 0u64;
    if root_is_internal {
        match stored.get(&root_label) {
            None => issues.push("the root merkle page is not stored although the trie has an internal root".into()),
            Some(_) => {
                let mut stack: Vec<([u8; 32], Key, usize)> = vec![(root_label, [0u8; 32], 0)];
                while let Some((label, prefix, base_depth)) = stack.pop() {
                    if !visited.insert(label) {
                        continue;
                    }
                    let (bkt, page) = &stored[&label];
                    let elided = u64::from_le_bytes(page[PAGE - 40..PAGE - 32].try_into().unwrap());
                    // walk positions inside the page
                    let mut inner: Vec<(Key, usize)> = vec![(prefix, 0)]; // (path, depth in page) of a node whose children we visit
                    while let Some((path, dip)) = inner.pop() {
                        for b in [false, true] {
                            let mut cp = path;
                            nvcore::reftrie::set_bit(&mut cp, base_depth + dip, b);
                            let cd = dip + 1;
                            let idx = (1usize << cd) - 2 + {
                                let mut v = 0usize;
                                for i in 0..cd {
                                    v = (v << 1) | bit(&cp, base_depth + i) as usize;
                                }
                                v
                            };
                            let got: [u8; 32] = page[idx * 32..idx * 32 + 32].try_into().unwrap();
                            let Some(want_node) = trie.node_at(&cp, base_depth + cd) else { continue };
                            let want = match want_node {
                                RNode::Term => [0u8; 32],
                                RNode::Leaf { hash, .. } | RNode::Int { hash, .. } => *hash,
                            };
                            nodes_checked += 1;
                            if got != want {
                                issues.push(format!(
                                    "merkle page in bucket {bkt} (page depth {}): node at trie depth {} differs from the reference trie",
                                    base_depth / 6,
                                    base_depth + cd
                                ));
                            }
                            if let RNode::Int { .. } = want_node {
                                if cd < 6 {
                                    inner.push((cp, cd));
                                } else {
                                    // a child page is needed
                                    let mut child_idx = 0u8;
                                    for i in 0..6 {
                                        child_idx = (child_idx << 1) | bit(&cp, base_depth + i) as u8;
                                    }
                                    let is_elided = (elided >> child_idx) & 1 == 1;
                                    let Some(mut child_path) = path_of_label(&label) else { continue };
                                    child_path.push(child_idx);
                                    let child_label = label_of_path(&child_path);
                                    match (stored.contains_key(&child_label), is_elided) {
                                        (true, false) => stack.push((child_label, cp, base_depth + 6)),
                                        (false, true) => elided_seen += 1,
                                        (false, false) => issues.push(format!(
                                            "a merkle page needed below bucket {bkt} (child {child_idx}, page depth {}) is neither stored nor marked elided (parent's elided bitfield {elided:#018x})",
                                            base_depth / 6 + 1
                                        )),
                                        (true, true) => issues.push(format!(
                                            "child {child_idx} of the page in bucket {bkt} is marked elided but is stored"
                                        )),
                                    }
                                }
                            }
                        }
                    }
                }
            }
        }
    }
    d.feat("merkle_nodes_compared", nodes_checked);
    d.feat_max("max_elided_children", elided_seen);
    d.feat_max("max_page_tree_pages_reached", visited.len() as u64);
    // Stored pages that the trie does not reference. NOMT clears (tombstones) a page when it
    // becomes empty or elided, so none should remain; a stale full bucket is found first by later
    // probes for the same page id. An all-zero root page on a trie without internal root is
    // tolerated.
    let mut unref = 0u64;
    for (label, (bkt, page)) in &stored {
        if visited.contains(label) {
            continue;
        }
        if *label == root_label && page[..126 * 32].iter().all(|b| *b == 0) {
            continue;
        }
        unref += 1;
        if unref <= 2 {
            issues.push(format!(
                "stale merkle page: bucket {bkt} is marked full and holds a page (depth {}) that the current trie does not reference",
                path_of_label(label).map_or(0, |p| p.len())
            ));
        }
    }
    d.feat_max("max_stored_pages_not_referenced", unref);
    d.issues.extend(issues);
}

/// Full decode + comparison with the model's key/value set.
pub fn decode_all<K: HashKind>(dir: &Path, model_items: &BTreeMap<Key, (usize, Hash)>, trie: &RefTrie) -> Decoded {
    let mut d = Decoded::default();
    match read_meta(dir) {
        Ok(m) => d.meta = m,
        Err(e) => {
            d.issues.push(e);
            return d;
        }
    }
    decode_beatree::<K>(dir, &mut d);
    decode_bitbox(dir, &mut d, trie);
    // decoded map == model
    let mut diffs = 0;
    for (k, (len, h)) in model_items {
        match d.kv.get(k) {
            None => {
                diffs += 1;
                if diffs <= 3 {
                    d.issues.push(format!("key {:02x}{:02x}{:02x}{:02x}.. of the model is not in any leaf (full key {})", k[0], k[1], k[2], k[3], hex32(k)));
                }
            }
            Some(v) => {
                let b = v.bytes();
                if b.len() != *len || K::h(b) != *h {
                    diffs += 1;
                    if diffs <= 3 {
                        d.issues.push(format!("key {:02x}{:02x}{:02x}{:02x}..: decoded value ({} bytes) differs from the model ({} bytes)", k[0], k[1], k[2], k[3], b.len(), len));
                    }
                }
            }
        }
    }
    for k in d.kv.keys() {
        if !model_items.contains_key(k) {
            diffs += 1;
            if diffs <= 3 {
                d.issues.push(format!("leaf holds key {:02x}{:02x}{:02x}{:02x}.. which the model does not have (deleted key still present)", k[0], k[1], k[2], k[3]));
            }
        }
    }
    if diffs > 3 {
        d.issues.push(format!("{diffs} key/value differences between the decoded image and the model in total"));
    }
    d
}

fn hex32(k: &[u8; 32]) -> String {
    k.iter().map(|b| format!("{b:02x}")).collect()
}

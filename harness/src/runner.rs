//! Parent/child process structure, verdicts, evidence files, known findings.

use crate::registry::{self, Check, Engine};
use nvcore::report::{Finding, Rep};
use nvcore::rng::{derive, tag};
use serde_json::{json, Value};
use std::collections::BTreeMap;
use std::io::Write;
use std::path::{Path, PathBuf};
use std::process::{Command, ExitCode, Stdio};
use std::time::{Duration, Instant};

pub const VERIF_DIR: &str = "/verif";

fn arg_val(args: &[String], name: &str) -> Option<String> {
    args.iter().position(|a| a == name).and_then(|i| args.get(i + 1).cloned())
}

fn env_seed() -> u64 {
    std::env::var("VERIF_SEED").ok().and_then(|s| s.parse().ok()).unwrap_or(1)
}

pub fn scratch_root(pid: u32) -> PathBuf {
    PathBuf::from(format!("/dev/shm/nv.{pid}"))
}

/// Scratch directories of earlier runs whose process is gone (killed runs cannot clean up after
/// themselves; /dev/shm is RAM).
fn remove_stale_scratch() {
    for (dir, prefix) in [("/dev/shm", "nv."), ("/tmp", "nv-ext4.")] {
        let Ok(rd) = std::fs::read_dir(dir) else { continue };
        for e in rd.flatten() {
            let name = e.file_name().to_string_lossy().to_string();
            let Some(pid) = name.strip_prefix(prefix).and_then(|p| p.parse::<u32>().ok()) else { continue };
            if !Path::new(&format!("/proc/{pid}")).exists() {
                let _ = std::fs::remove_dir_all(e.path());
            }
        }
    }
}

pub fn matrix_width(tier: &str) -> u64 {
    if tier == "thorough" {
        24
    } else {
        6
    }
}

// ------------------------------------------------------------------------------------ child

pub fn cmd_child(args: &[String]) -> ExitCode {
    // <ID> <tier> <seed> <shard> <nshards> <out> <scratch> [--from I] [--only I] [--deadline S]
    let id = &args[0];
    let tier = &args[1];
    let seed: u64 = args[2].parse().unwrap();
    let shard: u64 = args[3].parse().unwrap();
    let nshards: u64 = args[4].parse().unwrap();
    let out = PathBuf::from(&args[5]);
    let scratch = PathBuf::from(&args[6]);
    let from: u64 = arg_val(args, "--from").and_then(|s| s.parse().ok()).unwrap_or(0);
    let only: Option<u64> = arg_val(args, "--only").and_then(|s| s.parse().ok());
    let budget: u64 = arg_val(args, "--budget").and_then(|s| s.parse().ok()).unwrap_or(u64::MAX);
    let check = registry::find(id).expect("unknown check id");
    let ncases = if tier == "thorough" { check.thorough_cases } else { check.quick_cases };
    let t0 = Instant::now();
    let mut f = std::fs::OpenOptions::new().create(true).append(true).open(&out).unwrap();
    // keep stderr quiet: NOMT threads print panic messages there
    let mut i = shard;
    while i < ncases {
        if i < from || only.map_or(false, |o| o != i) {
            i += nshards;
            continue;
        }
        if only.is_none() && t0.elapsed().as_secs() >= budget {
            writeln!(f, "{}", json!({"budget_exhausted_at": i})).unwrap();
            break;
        }
        writeln!(f, "{}", json!({"start": i})).unwrap();
        f.flush().unwrap();
        let rep = run_one(&check, tier, seed, i, &scratch);
        writeln!(f, "{}", json!({"case": i, "rep": rep.to_json(), "trace_tail": rep.trace.iter().rev().take(0).collect::<Vec<_>>() })).unwrap();
        f.flush().unwrap();
        i += nshards;
    }
    writeln!(f, "{}", json!({"done": true})).unwrap();
    ExitCode::SUCCESS
}

pub fn case_dir(scratch: &Path, i: u64) -> PathBuf {
    // every 5th case on ext4 (/tmp) so that the O_DIRECT open path is exercised too
    if i % 5 == 4 {
        let p = PathBuf::from(format!("/tmp/nv-ext4.{}", std::process::id()));
        p.join(format!("c{i}"))
    } else {
        scratch.join(format!("c{i}"))
    }
}

pub fn case_seeds(check: &Check, tier: &str, seed: u64, i: u64) -> Vec<(u64, u64)> {
    if check.id == "C05" && i == 0 {
        // Pinned history: case 0 of every C05 run is one known to exhibit the open known finding
        // (ABA on the previous-root check, known_findings.json), so that the finding is listed
        // by every run instead of only by the runs that happen to generate it.
        return vec![(derive(1, &[tag("C05"), 730]), derive(1, &[tag("C05"), 730, 99]))];
    }
    match check.engine {
        Engine::EModel => vec![(derive(seed, &[tag(check.id), i]), derive(seed, &[tag(check.id), i, 99]))],
        Engine::EModelMatrix => {
            let w = matrix_width(tier);
            (0..w)
                .map(|c| (derive(seed, &[tag(check.id), i]), derive(seed, &[tag(check.id), i, c + 1])))
                .collect()
        }
        Engine::EProof | Engine::EIo | Engine::ELock | Engine::EConc => vec![(derive(seed, &[tag(check.id), i]), 0)],
    }
}

/// Run case `i` of a check and return its report (with the trace).
pub fn run_one(check: &Check, tier: &str, seed: u64, i: u64, scratch: &Path) -> Rep {
    let seeds = case_seeds(check, tier, seed, i);
    if check.id == "C12" && i % 8 == 7 {
        // competing changesets committed from several threads (same oracle as C15's chain rule)
        let (h, _) = seeds[0];
        let mut rep = Rep::new(h);
        let dir = scratch.join(format!("cc{i}"));
        crate::econc::run_case(tier, h, &dir, &mut rep);
        let _ = std::fs::remove_dir_all(&dir);
        return rep;
    }
    match check.engine {
        Engine::EModel => {
            let (h, c) = seeds[0];
            let dir = case_dir(scratch, i);
            let _ = std::fs::remove_dir_all(&dir);
            std::fs::create_dir_all(dir.parent().unwrap()).unwrap();
            let mut rep = Rep::new(h);
            crate::emodel::run_case(check.id, h, c, &dir, &mut rep);
            let _ = std::fs::remove_dir_all(&dir);
            if dir.starts_with("/tmp") {
                let _ = std::fs::remove_dir(dir.parent().unwrap());
            }
            rep
        }
        Engine::EProof => {
            let (h, _) = seeds[0];
            let mut rep = Rep::new(h);
            run_proof_case(check.id, h, i, &mut rep, 200);
            rep
        }
        Engine::ELock => {
            let (h, _) = seeds[0];
            let mut rep = Rep::new(h);
            let dir = scratch.join(format!("lk{i}"));
            crate::elock::run_case(h, &dir, &mut rep);
            let _ = std::fs::remove_dir_all(&dir);
            rep
        }
        Engine::EConc => {
            let (h, _) = seeds[0];
            let mut rep = Rep::new(h);
            let dir = scratch.join(format!("cc{i}"));
            crate::econc::run_case(tier, h, &dir, &mut rep);
            let _ = std::fs::remove_dir_all(&dir);
            rep
        }
        Engine::EIo => {
            let (h, _) = seeds[0];
            let mut rep = Rep::new(h);
            let dir = scratch.join(format!("io{i}"));
            crate::eio::run_case(check.id, tier, h, &dir, &mut rep);
            let _ = std::fs::remove_dir_all(&dir);
            rep
        }
        Engine::EModelMatrix => {
            let mut runs: Vec<Rep> = Vec::new();
            for (ci, (h, c)) in seeds.iter().enumerate() {
                let dir = case_dir(scratch, i * 100 + ci as u64);
                let _ = std::fs::remove_dir_all(&dir);
                std::fs::create_dir_all(dir.parent().unwrap()).unwrap();
                let mut rep = Rep::new(derive(*h, &[*c]));
                crate::emodel::run_case("C13", *h, *c, &dir, &mut rep);
                let _ = std::fs::remove_dir_all(&dir);
                if dir.starts_with("/tmp") {
                    let _ = std::fs::remove_dir(dir.parent().unwrap());
                }
                runs.push(rep);
            }
            matrix_verdict(runs)
        }
    }
}

pub fn run_proof_case(id: &str, seed: u64, i: u64, rep: &mut Rep, budget: usize) {
    use nvcore::proofs::{run_c07, run_c08, run_c18};
    use nvcore::reftrie::{Toy, B3, S2};
    match (id, i % 10) {
        ("C07", 0..=5) => run_c07::<B3>(seed, rep),
        ("C07", 6..=8) => run_c07::<S2>(seed, rep),
        ("C07", _) => run_c07::<Toy>(seed, rep),
        ("C08", 0..=6) => run_c08::<B3>(seed, rep),
        ("C08", _) => run_c08::<S2>(seed, rep),
        ("C18", 0..=4) => run_c18::<B3>(seed, rep, budget),
        ("C18", 5..=7) => run_c18::<S2>(seed, rep, budget),
        ("C18", _) => run_c18::<Toy>(seed, rep, budget),
        _ => unreachable!(),
    }
}

/// C13: a finding in one configuration is a dependence on configuration iff some other
/// configuration of the same history got past the same operation without it.
fn matrix_verdict(runs: Vec<Rep>) -> Rep {
    let mut out = Rep::new(runs.first().map_or(0, |r| r.case_seed));
    let n = runs.len();
    let relevant = ["C01", "C02", "C05", "C06", "C09", "C10", "C11", "C12"];
    for (ci, r) in runs.iter().enumerate() {
        let cfg = r.samples.get("_case").and_then(|v| v.first()).cloned().unwrap_or(Value::Null);
        let workers = cfg["cfg"]["commit_concurrency"].as_u64().unwrap_or(1);
        let min_cache = cfg["cfg"]["page_cache_mb"].as_u64().unwrap_or(256) <= 1 || cfg["cfg"]["leaf_cache_mb"].as_u64().unwrap_or(256) == 0;
        let total_evals: u64 = r.evals.values().sum();
        out.eval_keyed("C13", (workers >= 2 || min_cache) && total_evals > 10, r.case_seed);
        out.feat("oracle_evaluations_inside_runs", total_evals);
        out.feat(&format!("runs_with_workers_{}", workers), 1);
        for f in &r.findings {
            if !relevant.contains(&f.prop.as_str()) {
                continue;
            }
            let others_passed = runs.iter().enumerate().any(|(cj, o)| {
                cj != ci && o.op_index >= f.op_index && !o.findings.iter().any(|g| g.sig == f.sig && g.op_index == f.op_index)
            });
            if others_passed || n == 1 {
                out.findings.push(Finding {
                    prop: "C13".into(),
                    sig: format!("config-dependent:{}:{}", f.prop, f.sig),
                    detail: format!("under cfg {} : {} (other configurations of the same history passed this operation)", cfg["cfg"], f.detail),
                    case_seed: f.case_seed,
                    op_index: f.op_index,
                });
            } else {
                out.feat("config_independent_failures_seen", 1);
            }
        }
        out.inconclusive.extend(r.inconclusive.iter().cloned());
        if ci == 0 {
            out.sample("C13", json!({"history": cfg, "trace_head": r.trace.iter().take(12).collect::<Vec<_>>() }));
        } else if ci < 3 {
            out.sample("C13", json!({"other_cfg": cfg["cfg"], "hasher": cfg["hasher"]}));
        }
        // final roots must agree among runs with the same hasher: compare through features
    }
    out.trace = runs.into_iter().flat_map(|r| r.trace).collect();
    out
}

// ------------------------------------------------------------------------------------ parent

struct ShardResult {
    rep: Rep,
    cases_done: u64,
    crashed_cases: Vec<(u64, String)>,
    hangs: Vec<(u64, String)>,
    inconclusive: Vec<String>,
}

fn parse_out(path: &Path) -> (Rep, u64, Option<u64>, bool) {
    // returns (merged rep, cases done, case that was started but not finished, done flag)
    let mut rep = Rep::default();
    let mut done = false;
    let mut cases = 0;
    let mut started: Option<u64> = None;
    if let Ok(s) = std::fs::read_to_string(path) {
        for line in s.lines() {
            let Ok(v) = serde_json::from_str::<Value>(line) else { continue };
            if let Some(i) = v.get("start").and_then(|x| x.as_u64()) {
                started = Some(i);
            } else if v.get("case").is_some() {
                rep.merge(Rep::from_json(&v["rep"]));
                cases += 1;
                started = None;
            } else if v.get("done").is_some() {
                done = true;
            } else if v.get("budget_exhausted_at").is_some() {
                rep.feat("shards_stopped_by_time_budget", 1);
            }
        }
    }
    (rep, cases, started, done)
}

fn run_shard(check_id: &str, tier: &str, seed: u64, shard: u64, nshards: u64, scratch: &Path, budget: u64, hard_timeout: u64) -> ShardResult {
    let exe = std::env::current_exe().unwrap();
    let mut result = ShardResult {
        rep: Rep::default(),
        cases_done: 0,
        crashed_cases: Vec::new(),
        hangs: Vec::new(),
        inconclusive: Vec::new(),
    };
    let mut from = 0u64;
    let mut attempt = 0;
    let t0 = Instant::now();
    loop {
        attempt += 1;
        let out = scratch.join(format!("shard{shard}.{attempt}.jsonl"));
        let _ = std::fs::remove_file(&out);
        let remaining_budget = budget.saturating_sub(t0.elapsed().as_secs());
        let mut child = Command::new(&exe)
            .args([
                "child",
                check_id,
                tier,
                &seed.to_string(),
                &shard.to_string(),
                &nshards.to_string(),
                out.to_str().unwrap(),
                scratch.join(format!("s{shard}")).to_str().unwrap(),
                "--from",
                &from.to_string(),
                "--budget",
                &remaining_budget.to_string(),
            ])
            .stdout(Stdio::null())
            .stderr(Stdio::null())
            .spawn()
            .expect("spawn child");
        let stall = Duration::from_secs(
            std::env::var("NV_STALL_S")
                .ok()
                .and_then(|s| s.parse().ok())
                .unwrap_or(if tier == "thorough" { 600 } else { 240 }),
        );
        let (status, hang) = wait_watch(
            &mut child,
            Duration::from_secs(hard_timeout.saturating_sub(t0.elapsed().as_secs()).max(30)),
            Some(&out),
            stall,
        );
        let (rep, cases, started, done) = parse_out(&out);
        result.rep.merge(rep);
        result.cases_done += cases;
        if let Some(h) = hang {
            let ci = started.unwrap_or(u64::MAX);
            result.hangs.push((ci, h));
            if started.is_none() || attempt > 6 {
                break;
            }
            from = ci + 1;
            continue;
        }
        match status {
            Some(st) if st.success() && done => break,
            Some(st) => {
                // died: which case?
                let Some(ci) = started else {
                    result.inconclusive.push(format!("shard {shard} exited with {st} outside a case"));
                    break;
                };
                // re-run that case alone
                let out2 = scratch.join(format!("shard{shard}.{attempt}.only{ci}.jsonl"));
                let mut c2 = Command::new(&exe)
                    .args([
                        "child",
                        check_id,
                        tier,
                        &seed.to_string(),
                        &shard.to_string(),
                        &nshards.to_string(),
                        out2.to_str().unwrap(),
                        scratch.join(format!("s{shard}r")).to_str().unwrap(),
                        "--only",
                        &ci.to_string(),
                    ])
                    .stdout(Stdio::null())
                    .stderr(Stdio::null())
                    .spawn()
                    .expect("spawn child");
                let st2 = wait_with_timeout(&mut c2, Duration::from_secs(600));
                let (rep2, cases2, _, done2) = parse_out(&out2);
                match st2 {
                    Some(s2) if s2.success() && done2 => {
                        result.rep.merge(rep2);
                        result.cases_done += cases2;
                        result.inconclusive.push(format!("shard {shard} died ({st}) in case {ci}; not reproduced in isolation"));
                    }
                    Some(s2) => {
                        result.crashed_cases.push((ci, format!("process died twice in case {ci}: first {st}, isolated rerun {s2}")));
                    }
                    None => {
                        result.inconclusive.push(format!("case {ci}: isolated rerun timed out (watchdog)"));
                    }
                }
                from = ci + 1;
                if attempt > 6 {
                    result.inconclusive.push(format!("shard {shard}: too many restarts"));
                    break;
                }
            }
            None => {
                result.inconclusive.push(format!(
                    "shard {shard}: watchdog fired after {}s in case {:?} (inconclusive, not a verdict)",
                    t0.elapsed().as_secs(),
                    started
                ));
                break;
            }
        }
    }
    result
}

/// Run one case alone (optionally with an extra environment variable); returns
/// (completed without hang, hang report, its report).
fn run_case_alone(check_id: &str, tier: &str, seed: u64, ci: u64, scratch: &Path, tag: &str, env: Option<(&str, &str)>) -> (bool, Option<String>, Rep) {
    let exe = std::env::current_exe().unwrap();
    let out = scratch.join(format!("alone.{tag}.{ci}.jsonl"));
    let _ = std::fs::remove_file(&out);
    let mut cmd = Command::new(&exe);
    cmd.args([
        "child",
        check_id,
        tier,
        &seed.to_string(),
        "0",
        "1",
        out.to_str().unwrap(),
        scratch.join(format!("alone-{tag}")).to_str().unwrap(),
        "--only",
        &ci.to_string(),
    ])
    .stdout(Stdio::null())
    .stderr(Stdio::null());
    if let Some((k, v)) = env {
        cmd.env(k, v);
    }
    let Ok(mut child) = cmd.spawn() else { return (false, None, Rep::default()) };
    let (status, hang) = wait_watch(&mut child, Duration::from_secs(900), Some(&out), Duration::from_secs(240));
    let (rep, _, _, done) = parse_out(&out);
    (hang.is_none() && done && status.map_or(false, |s| s.success()), hang, rep)
}

fn wait_with_timeout(child: &mut std::process::Child, timeout: Duration) -> Option<std::process::ExitStatus> {
    wait_watch(child, timeout, None, Duration::from_secs(u64::MAX / 4)).0
}

/// Wait for the child. Besides the overall timeout, watch the progress file: if it has not been
/// written for `stall` the child is considered hung in its current case; two gdb stack samples
/// 5 s apart are taken before it is killed. Returns (status, hang report).
fn wait_watch(
    child: &mut std::process::Child,
    timeout: Duration,
    progress: Option<&Path>,
    stall: Duration,
) -> (Option<std::process::ExitStatus>, Option<String>) {
    let t0 = Instant::now();
    loop {
        match child.try_wait() {
            Ok(Some(st)) => return (Some(st), None),
            Ok(None) => {
                if t0.elapsed() > timeout {
                    let _ = child.kill();
                    let _ = child.wait();
                    return (None, None);
                }
                if let Some(p) = progress {
                    let age = std::fs::metadata(p)
                        .and_then(|m| m.modified())
                        .ok()
                        .and_then(|m| m.elapsed().ok())
                        .unwrap_or(Duration::ZERO);
                    if age > stall {
                        let a = gdb_sample(child.id());
                        std::thread::sleep(Duration::from_secs(5));
                        let b = gdb_sample(child.id());
                        let same = !a.is_empty() && a == b;
                        let report = format!(
                            "no progress for {}s; blocked/spinning NOMT frames {}: {}",
                            age.as_secs(),
                            if same { "identical in two samples 5s apart" } else { "DIFFER between two samples" },
                            b.join(" | ")
                        );
                        let _ = child.kill();
                        let _ = child.wait();
                        return (None, Some(format!("{}{}", if same { "CONFIRMED-HANG " } else { "STALL " }, report)));
                    }
                }
                std::thread::sleep(Duration::from_millis(50));
            }
            Err(_) => return (None, None),
        }
    }
}

/// Innermost `nomt::` frame of every thread that has one, sorted.
fn gdb_sample(pid: u32) -> Vec<String> {
    let out = Command::new("timeout")
        .args(["60", "gdb", "-p", &pid.to_string(), "-batch", "-ex", "thread apply all bt 14"])
        .stderr(Stdio::null())
        .output();
    let Ok(out) = out else { return Vec::new() };
    let text = String::from_utf8_lossy(&out.stdout);
    let mut res = Vec::new();
    let mut cur_thread = String::new();
    let mut got = false;
    for line in text.lines() {
        if line.starts_with("Thread ") {
            cur_thread = line.split('"').nth(1).unwrap_or("?").to_string();
            got = false;
        } else if !got && line.trim_start().starts_with('#') {
            if let Some(pos) = line.find("nomt::") {
                let f: String = line[pos..].chars().take_while(|c| !c.is_whitespace() && *c != '(' && *c != '<').collect();
                res.push(format!("{cur_thread}:{f}"));
                got = true;
            }
        }
    }
    res.sort();
    res
}

/// Run the proof monitors under Miri (nomt-core only; the nomt crate cannot run under Miri
/// because of io_uring/mmap/flock). Undefined behaviour reported by Miri is a violation.
fn miri_phase(seed: u64) -> (Rep, Vec<String>, Vec<String>) {
    let mut rep = Rep::default();
    let mut violations = Vec::new();
    let mut inconclusive = Vec::new();
    let harness = Path::new(VERIF_DIR).join("harness");
    // build once so that the parallel runs below only take the build lock briefly
    let build = Command::new("cargo")
        .args(["+nightly", "miri", "run", "--offline", "-p", "nvcore", "--bin", "miri_proofs", "--", "0", "0", "0", "0"])
        .current_dir(&harness)
        .env("MIRIFLAGS", "-Zmiri-permissive-provenance")
        .env("CARGO_NET_OFFLINE", "true")
        .stdout(Stdio::null())
        .stderr(Stdio::piped())
        .output();
    match build {
        Ok(o) if o.status.success() => {}
        Ok(o) => {
            inconclusive.push(format!("miri build/run failed: {}", String::from_utf8_lossy(&o.stderr).lines().rev().take(3).collect::<Vec<_>>().join(" / ")));
            return (rep, violations, inconclusive);
        }
        Err(e) => {
            inconclusive.push(format!("miri not available: {e}"));
            return (rep, violations, inconclusive);
        }
    }
    let procs = 16u64;
    let per = 3u64;
    let handles: Vec<_> = (0..procs)
        .map(|p| {
            let harness = harness.clone();
            std::thread::spawn(move || {
                let out = Command::new("timeout")
                    .args(["1500", "cargo", "+nightly", "miri", "run", "--offline", "-p", "nvcore", "--bin", "miri_proofs", "--"])
                    .args([seed.to_string(), (p * per).to_string(), per.to_string(), "6".to_string()])
                    .current_dir(&harness)
                    .env("MIRIFLAGS", "-Zmiri-permissive-provenance")
                    .env("CARGO_NET_OFFLINE", "true")
                    .output();
                (p, out)
            })
        })
        .collect();
    for h in handles {
        let (p, out) = h.join().unwrap();
        match out {
            Ok(o) => {
                let stdout = String::from_utf8_lossy(&o.stdout);
                let stderr = String::from_utf8_lossy(&o.stderr);
                if o.status.success() {
                    if let Some(line) = stdout.lines().rev().find(|l| l.starts_with('{')) {
                        if let Ok(v) = serde_json::from_str::<Value>(line) {
                            rep.merge(Rep::from_json(&v));
                            rep.feat("miri_processes_completed", 1);
                            continue;
                        }
                    }
                    inconclusive.push(format!("miri shard {p}: no report line"));
                } else if stderr.contains("Undefined Behavior") || stderr.contains("error: unsupported operation") && stderr.contains("nomt_core") {
                    let msg: String = stderr.lines().filter(|l| l.contains("error") || l.contains("-->")).take(4).collect::<Vec<_>>().join(" | ");
                    violations.push(format!("MIRI shard {p} (cases {}..{}): {msg}", p * per, p * per + per));
                } else if o.status.code() == Some(124) {
                    inconclusive.push(format!("miri shard {p}: time limit (watchdog)"));
                } else {
                    inconclusive.push(format!("miri shard {p}: exit {:?}: {}", o.status.code(), stderr.lines().rev().take(2).collect::<Vec<_>>().join(" / ")));
                }
            }
            Err(e) => inconclusive.push(format!("miri shard {p}: {e}")),
        }
    }
    (rep, violations, inconclusive)
}

/// Sanitizer phase (thorough tier of selected checks): the harness is rebuilt with a compiler
/// sanitizer (nightly toolchain; ThreadSanitizer needs -Zbuild-std) and the check's quick-tier
/// cases are run again at a different seed in 16 sanitized shard processes. The behavioural
/// oracles run as usual (their findings count like native ones - the slowdown changes the
/// interleavings); every sanitizer report whose stack touches nomt code is a violation.
/// A build failure or a time-out is inconclusive.
fn sanitizer_phase(kind: &str, id: &str, seed: u64, scratch: &Path) -> (Rep, Vec<String>, Vec<String>) {
    let mut rep = Rep::default();
    let mut violations = Vec::new();
    let mut inconclusive = Vec::new();
    let harness = Path::new(VERIF_DIR).join("harness");
    let target_dir = harness.join(format!("target-{kind}"));
    let flags = format!("-Zsanitizer={kind} -Cforce-frame-pointers=yes");
    let mut args = vec!["+nightly", "build", "--release", "--offline", "--target", "x86_64-unknown-linux-gnu", "--target-dir", target_dir.to_str().unwrap()];
    if kind == "thread" {
        args.push("-Zbuild-std");
    }
    let build = Command::new("cargo")
        .args(&args)
        .current_dir(&harness)
        .env("RUSTFLAGS", &flags)
        .env("CARGO_NET_OFFLINE", "true")
        .stdout(Stdio::null())
        .stderr(Stdio::piped())
        .output();
    match build {
        Ok(o) if o.status.success() => {}
        Ok(o) => {
            inconclusive.push(format!("{kind}-sanitizer build failed: {}", String::from_utf8_lossy(&o.stderr).lines().rev().take(3).collect::<Vec<_>>().join(" / ")));
            return (rep, violations, inconclusive);
        }
        Err(e) => {
            inconclusive.push(format!("{kind}-sanitizer build not possible: {e}"));
            return (rep, violations, inconclusive);
        }
    }
    let exe = target_dir.join("x86_64-unknown-linux-gnu/release/nv");
    let dir = scratch.join(format!("san-{kind}"));
    let _ = std::fs::create_dir_all(&dir);
    let log_prefix = dir.join("report");
    let (opt_var, opts) = if kind == "thread" {
        ("TSAN_OPTIONS", format!("halt_on_error=0 exitcode=0 report_signal_unsafe=0 second_deadlock_stack=1 log_path={}", log_prefix.display()))
    } else {
        ("ASAN_OPTIONS", format!("detect_leaks=0 abort_on_error=1 log_path={}", log_prefix.display()))
    };
    let seed2 = derive(seed, &[tag("sanitizer"), tag(kind)]);
    let nshards = 16u64;
    let budget = 420u64;
    let children: Vec<_> = (0..nshards)
        .map(|sh| {
            let out = dir.join(format!("shard{sh}.jsonl"));
            let c = Command::new(&exe)
                .args([
                    "child",
                    id,
                    "quick",
                    &seed2.to_string(),
                    &sh.to_string(),
                    &nshards.to_string(),
                    out.to_str().unwrap(),
                    dir.join(format!("s{sh}")).to_str().unwrap(),
                    "--budget",
                    &budget.to_string(),
                ])
                .env(opt_var, &opts)
                .stdout(Stdio::null())
                .stderr(Stdio::null())
                .spawn();
            (sh, out, c)
        })
        .collect();
    let mut cases = 0;
    for (sh, out, c) in children {
        match c {
            Ok(mut c) => {
                let (status, hang) = wait_watch(&mut c, Duration::from_secs(budget * 3), Some(&out), Duration::from_secs(900));
                let (r, n, started, done) = parse_out(&out);
                rep.merge(r);
                cases += n;
                if let Some(h) = hang {
                    inconclusive.push(format!("{kind}-sanitizer shard {sh}: {h}"));
                } else if !(status.map_or(false, |s| s.success()) && done) {
                    // with ASan a report aborts the process; the report itself is picked up below
                    if kind != "address" {
                        inconclusive.push(format!("{kind}-sanitizer shard {sh} ended with {status:?} in case {started:?}"));
                    }
                }
            }
            Err(e) => inconclusive.push(format!("{kind}-sanitizer shard {sh}: {e}")),
        }
    }
    rep.feat(&format!("{kind}_sanitizer_cases"), cases);
    // sanitizer reports
    let mut seen = std::collections::BTreeSet::new();
    let mut n_reports = 0u64;
    if let Ok(rd) = std::fs::read_dir(&dir) {
        for e in rd.flatten() {
            let name = e.file_name().to_string_lossy().to_string();
            if !name.starts_with("report.") {
                continue;
            }
            let Ok(text) = std::fs::read_to_string(e.path()) else { continue };
            for block in text.split("==================").filter(|b| b.contains("Sanitizer")) {
                let Some(head) = block.lines().find(|l| l.contains("WARNING: ThreadSanitizer") || l.contains("ERROR: AddressSanitizer")) else { continue };
                n_reports += 1;
                let frame = block
                    .lines()
                    .filter(|l| l.trim_start().starts_with('#'))
                    .find(|l| l.contains("nomt::") || l.contains("nomt_core::") || l.contains("/repo/"))
                    .map(|l| {
                        let t = l.trim();
                        // "#3 nomt::foo::bar /path:line:col (nv+0x..)" -> symbol only
                        let tok: Vec<&str> = t.split_whitespace().collect();
                        if tok.len() > 3 && tok[1].starts_with("0x") && tok[2] == "in" {
                            tok[3].to_string()
                        } else {
                            tok.get(1).copied().unwrap_or("?").to_string()
                        }
                    });
                let Some(frame) = frame else {
                    rep.feat(&format!("{kind}_sanitizer_reports_outside_nomt"), 1);
                    continue;
                };
                let what = head.split("Sanitizer:").nth(1).unwrap_or("").trim();
                let what = what.split(" (pid").next().unwrap_or("").split(" on address").next().unwrap_or("").trim().to_string();
                if seen.insert((what.clone(), frame.clone())) {
                    let excerpt: Vec<&str> = block.lines().filter(|l| !l.trim().is_empty()).take(14).collect();
                    violations.push(format!("SANITIZER {kind}: {what} in {frame} :: {}", excerpt.join(" | ")));
                }
            }
        }
    }
    rep.feat(&format!("{kind}_sanitizer_reports"), n_reports);
    (rep, violations, inconclusive)
}

#[derive(Clone)]
struct Known {
    property: String,
    sig: String,
    sig_prefix: String,
    status: String,
    what: String,
}

fn load_known() -> Vec<Known> {
    let p = Path::new(VERIF_DIR).join("known_findings.json");
    let Ok(s) = std::fs::read_to_string(p) else { return Vec::new() };
    let Ok(v) = serde_json::from_str::<Value>(&s) else { return Vec::new() };
    v["findings"]
        .as_array()
        .map(|a| {
            a.iter()
                .map(|f| Known {
                    property: f["property"].as_str().unwrap_or("").into(),
                    sig: f["sig"].as_str().unwrap_or("").into(),
                    sig_prefix: f["sig_prefix"].as_str().unwrap_or("").into(),
                    status: f["status"].as_str().unwrap_or("").into(),
                    what: f["what"].as_str().unwrap_or("").into(),
                })
                .collect()
        })
        .unwrap_or_default()
}

pub fn cmd_check(args: &[String]) -> ExitCode {
    let id = args.get(0).cloned().unwrap_or_default();
    let tier = arg_val(args, "--tier")
        .or_else(|| std::env::var("VERIF_TIER").ok())
        .unwrap_or_else(|| "quick".into());
    let tier = if tier == "thorough" { "thorough" } else { "quick" };
    let seed = arg_val(args, "--seed").and_then(|s| s.parse().ok()).unwrap_or_else(env_seed);
    let Some(check) = registry::find(&id) else {
        eprintln!("unknown check {id}");
        return ExitCode::from(2);
    };
    let t0 = Instant::now();
    let pid = std::process::id();
    remove_stale_scratch();
    let scratch = scratch_root(pid);
    let _ = std::fs::remove_dir_all(&scratch);
    std::fs::create_dir_all(&scratch).unwrap();
    let ncases = if tier == "thorough" { check.thorough_cases } else { check.quick_cases };
    let budget = if tier == "thorough" { check.thorough_budget_s } else { check.quick_budget_s };
    let nshards = std::thread::available_parallelism().map(|n| n.get() as u64).unwrap_or(8).min(16).min(ncases.max(1));
    let hard_timeout = budget * 4 + 600;
    println!("nv check {id} tier={tier} seed={seed} cases<={ncases} shards={nshards} budget={budget}s");
    // NV_ONLY_SANITIZER (debug aid): skip the native phase of a thorough run
    let native_shards = if tier == "thorough" && std::env::var("NV_ONLY_SANITIZER").is_ok() { 0 } else { nshards };
    let handles: Vec<_> = (0..native_shards)
        .map(|s| {
            let id = id.clone();
            let scratch = scratch.clone();
            let tier = tier.to_string();
            std::thread::spawn(move || run_shard(&id, &tier, seed, s, nshards, &scratch, budget, hard_timeout))
        })
        .collect();
    let mut rep = Rep::default();
    let mut cases_done = 0;
    let mut inconclusive: Vec<String> = Vec::new();
    let mut crashed: Vec<(u64, String)> = Vec::new();
    let mut hangs: Vec<(u64, String)> = Vec::new();
    for h in handles {
        let r = h.join().unwrap();
        rep.merge(r.rep);
        cases_done += r.cases_done;
        inconclusive.extend(r.inconclusive);
        crashed.extend(r.crashed_cases);
        hangs.extend(r.hangs);
    }
    // A confirmed hang is a verdict only for the properties that promise bounded progress
    // (C14: never a hang; C15: no interleaving deadlocks); elsewhere it is inconclusive.
    let mut differential_done = 0;
    for (ci, h) in &hangs {
        if (id == "C14" || id == "C15") && h.starts_with("CONFIRMED-HANG") {
            crashed.push((*ci, h.clone()));
        } else if id == "C13" && differential_done < 2 && *ci != u64::MAX {
            // C13 hang differential: the case stalls again when run alone with the sampled
            // configurations, and completes (no finding) with the plainest configuration for the
            // very same history => whether the history completes depends on the configuration.
            differential_done += 1;
            let (ok_sampled, hang2, _) = run_case_alone(&id, tier, seed, *ci, &scratch, "sampled", None);
            if ok_sampled || hang2.is_none() {
                inconclusive.push(format!("case {ci}: {h} (not reproduced when run alone)"));
                continue;
            }
            let (ok_base, _, rep_base) = run_case_alone(&id, tier, seed, *ci, &scratch, "baseline", Some(("NV_BASELINE_CFG", "1")));
            if ok_base && rep_base.findings.is_empty() {
                crashed.push((
                    *ci,
                    format!("CONFIG-DEPENDENT-HANG case {ci} never completes under its sampled configurations (twice: {h} / {}) but completes under the baseline configuration (1 commit worker, no warm-up, default caches)", hang2.unwrap_or_default()),
                ));
            } else {
                inconclusive.push(format!("case {ci}: {h} (baseline configuration did not complete cleanly either)"));
            }
        } else {
            inconclusive.push(format!("case {ci}: {h}"));
        }
    }
    if id == "C18" && tier == "thorough" && std::env::var("NV_NO_MIRI").is_err() {
        let (mrep, mviol, minc) = miri_phase(seed);
        let mevals: u64 = mrep.evals.values().sum();
        rep.feat("miri_objects_and_queries_interpreted", mevals);
        // findings under Miri (panics caught by the monitors) count like native ones
        rep.merge(mrep);
        for v in mviol {
            crashed.push((0, v));
        }
        inconclusive.extend(minc);
    }
    if tier == "thorough" && std::env::var("NV_NO_SANITIZER").is_err() {
        let kinds: &[&str] = match id.as_str() {
            "C13" | "C15" => &["thread"],
            "C01" => &["address"],
            _ => &[],
        };
        for kind in kinds {
            let (srep, sviol, sinc) = sanitizer_phase(kind, &id, seed, &scratch);
            rep.merge(srep);
            for v in sviol {
                crashed.push((0, v));
            }
            inconclusive.extend(sinc);
        }
    }
    inconclusive.extend(rep.inconclusive.iter().cloned());
    let _ = std::fs::remove_dir_all(&scratch);
    let _ = std::fs::remove_dir_all(format!("/tmp/nv-ext4.{pid}"));

    // findings for this property
    let mut mine: Vec<Finding> = rep.findings.iter().filter(|f| f.prop == id).cloned().collect();
    for (ci, what) in &crashed {
        mine.push(Finding {
            prop: id.clone(),
            sig: if what.starts_with("CONFIRMED-HANG") {
                "confirmed-hang".into()
            } else if what.starts_with("CONFIG-DEPENDENT-HANG") {
                "config-dependent:hang".into()
            } else if what.starts_with("MIRI") {
                "miri-undefined-behaviour".into()
            } else if what.starts_with("SANITIZER") {
                format!("sanitizer:{}", what.split(" :: ").next().unwrap_or("").trim_start_matches("SANITIZER ").chars().take(120).collect::<String>())
            } else {
                "process-died".into()
            },
            detail: what.clone(),
            case_seed: case_seeds(&check, tier, seed, *ci)[0].0,
            op_index: 0,
        });
    }
    let others: BTreeMap<String, usize> = rep.findings.iter().filter(|f| f.prop != id).fold(BTreeMap::new(), |mut m, f| {
        *m.entry(f.prop.clone()).or_default() += 1;
        m
    });
    let known = load_known();
    let mut violations: Vec<&Finding> = Vec::new();
    let mut known_hits: BTreeMap<String, (Known, usize)> = BTreeMap::new();
    for f in &mine {
        match known.iter().find(|k| {
            k.status == "open"
                && k.property == f.prop
                && ((!k.sig.is_empty() && k.sig == f.sig) || (!k.sig_prefix.is_empty() && f.sig.starts_with(&k.sig_prefix)))
        }) {
            Some(k) => {
                let key = format!("{}{}", k.sig, k.sig_prefix);
                known_hits.entry(key).or_insert((k.clone(), 0)).1 += 1;
                if std::env::var("NV_SHOW_KNOWN").is_ok() {
                    println!("  known-hit: case_seed={} index={:?} sig={} :: {}", f.case_seed, find_case_index(&check, tier, seed, f.case_seed, ncases), f.sig, f.detail.chars().take(300).collect::<String>());
                }
            }
            None => violations.push(f),
        }
    }
    let evals = rep.evals.get(&id).copied().unwrap_or(0);
    let distinct = rep.nontrivial.get(&id).map_or(0, |s| s.len()) as u64;

    // replay files
    let replay_dir = Path::new(VERIF_DIR).join("out").join("replays");
    let _ = std::fs::create_dir_all(&replay_dir);
    let mut printed = std::collections::BTreeSet::new();
    let mut exit = 0u8;
    for f in &violations {
        let key = (f.sig.clone(), f.case_seed);
        if !printed.insert(key) || printed.len() > 10 {
            continue;
        }
        let case_index = find_case_index(&check, tier, seed, f.case_seed, ncases);
        let path = replay_dir.join(format!("{}-{}-{}.json", id, seed, f.case_seed));
        let body = json!({
            "property": id, "tier": tier, "seed": seed, "case_seed": f.case_seed, "case_index": case_index, "op_index": f.op_index,
            "sig": f.sig, "detail": f.detail,
            "replay_cmd": format!("cd /verif && ./check {} --replay {}", id, path.display()),
        });
        let _ = std::fs::write(&path, serde_json::to_string_pretty(&body).unwrap());
        println!("  finding: [{}] {}", f.sig, f.detail);
        println!("VIOLATION property={} replay={}", id, path.display());
        exit = 1;
    }
    for (_, (k, n)) in &known_hits {
        println!("KNOWN-FINDING: property={} {} [sig={}{} seen {}x]", k.property, k.what, k.sig, k.sig_prefix, n);
    }
    if std::env::var("NV_SHOW_ALL").is_ok() {
        let mut seen = std::collections::BTreeSet::new();
        for f in rep.findings.iter().filter(|f| f.prop != id) {
            if seen.insert((f.prop.clone(), f.sig.clone())) {
                println!("  other: [{}] [{}] seed={} {}", f.prop, f.sig, f.case_seed, f.detail);
            }
        }
    }
    for (p, n) in &others {
        println!("NOTE: {n} failure(s) attributed to {p} were seen during this run (run ./check {p}); not part of this verdict");
    }
    for s in inconclusive.iter().take(10) {
        println!("INCONCLUSIVE {s}");
    }

    // evidence
    let mut samples: Vec<Value> = Vec::new();
    if let Some(s) = rep.samples.get(&id) {
        samples.extend(s.iter().cloned());
    }
    if let Some(s) = rep.samples.get("_case") {
        samples.extend(s.iter().take(3).cloned());
    }
    if samples.is_empty() {
        samples.push(json!({"note": "no case sample recorded"}));
    }
    let wall = t0.elapsed().as_secs_f64();
    let evidence = json!({
        "property_id": id,
        "tier": tier,
        "seed": seed,
        "level": check.level,
        "coverage": {
            "evaluations": evals,
            "distinct_nontrivial": distinct,
            "rule": check.rule,
            "samples": samples,
            "cases_run": cases_done,
            "cases_planned": ncases,
            "features_observed": rep.features,
            "oracle_evaluations_by_property_in_this_run": rep.evals,
            "inconclusive": inconclusive.len(),
            "inconclusive_detail": inconclusive.iter().take(8).collect::<Vec<_>>(),
            "known_findings_matched": known_hits.iter().map(|(s, (_, n))| json!({"sig": s, "count": n})).collect::<Vec<_>>(),
            "exhaustive": false,
        },
        "assumptions": check.assumptions,
        "wall_s": wall,
        "violations": violations.len(),
    });
    let ev_dir = std::env::var("NV_EVIDENCE_DIR").map(PathBuf::from).unwrap_or_else(|_| Path::new(VERIF_DIR).join("evidence"));
    let _ = std::fs::create_dir_all(&ev_dir);
    let _ = std::fs::write(ev_dir.join(format!("{id}.json")), serde_json::to_string_pretty(&evidence).unwrap());

    println!(
        "{id}: cases={cases_done}/{ncases} evaluations={evals} distinct_nontrivial={distinct} violations={} known={} inconclusive={} wall={:.1}s",
        violations.len(),
        known_hits.len(),
        inconclusive.len(),
        wall
    );
    if exit == 0 && evals == 0 {
        println!("BROKEN-CHECK: the monitors observed nothing (0 evaluations); this is not a pass");
        return ExitCode::from(2);
    }
    ExitCode::from(exit)
}

fn find_case_index(check: &Check, tier: &str, seed: u64, case_seed: u64, ncases: u64) -> Option<u64> {
    for i in 0..ncases {
        for (h, c) in case_seeds(check, tier, seed, i) {
            if h == case_seed || derive(h, &[c]) == case_seed {
                return Some(i);
            }
        }
    }
    None
}

pub fn cmd_replay(args: &[String]) -> ExitCode {
    let id = &args[0];
    let file = &args[1];
    let Ok(s) = std::fs::read_to_string(file) else {
        eprintln!("cannot read {file}");
        return ExitCode::from(2);
    };
    let v: Value = serde_json::from_str(&s).unwrap();
    let check = registry::find(id).unwrap();
    let tier = v["tier"].as_str().unwrap_or("quick").to_string();
    let seed = v["seed"].as_u64().unwrap();
    let ncases = if tier == "thorough" { check.thorough_cases } else { check.quick_cases };
    let ci = v["case_index"]
        .as_u64()
        .or_else(|| v["case_seed"].as_u64().and_then(|cs| find_case_index(&check, &tier, seed, cs, ncases)));
    let Some(ci) = ci else {
        eprintln!("replay file has no case index");
        return ExitCode::from(2);
    };
    let scratch = scratch_root(std::process::id());
    std::fs::create_dir_all(&scratch).unwrap();
    let rep = run_one(&check, &tier, seed, ci, &scratch);
    let _ = std::fs::remove_dir_all(&scratch);
    for t in &rep.trace {
        println!("{t}");
    }
    let mut bad = false;
    for f in &rep.findings {
        println!("FINDING [{}] {} :: {}", f.prop, f.sig, f.detail);
        if &f.prop == id {
            bad = true;
        }
    }
    if bad {
        println!("VIOLATION property={} replay={}", id, file);
        ExitCode::from(1)
    } else {
        println!("replay: no {id} finding reproduced");
        ExitCode::SUCCESS
    }
}

//! E-IO: recorded operations, crash / power-loss images, fault injection and trace monitors.
//!   C03 process-crash images      C04 power-loss images + durability-order monitor
//!   C14 injected I/O errors       C17 previous image untouched until the switch-over is durable

use crate::cfg::Cfg;
use crate::decode;
use crate::gen::{gen_batch, BatchParams, ValProfile};
use crate::io_rec::{describe, is_injectable, recorder, Event, Mode, Phase};
use crate::model::{kv_root, Model};
use crate::shadow::{self, choose, fold, materialise, InFlight, Policy, Status};
use crate::sut::{batch_writes, guard, msg_class, Access, Batch, Db, Sut};
use nomt::verif::Kind;
use nomt::SessionParams;
use nvcore::keygen::{KeyPool, KeyProfile};
use nvcore::reftrie::{Key, B3};
use nvcore::report::{hex8, Rep};
use nvcore::rng::{derive, Rng};
use serde_json::json;
use std::collections::BTreeMap;
use std::path::{Path, PathBuf};

type K = B3;

#[derive(Clone, Debug)]
pub enum RecOp {
    Commit { batch: Batch, via: u64 },
    Rollback(usize),
}

#[derive(Clone, Copy, PartialEq, Debug)]
pub enum Req {
    Pre,
    Post,
    Either,
}

pub struct EioParams {
    pub prop: &'static str,
    /// stop generating further images / injections for a case after this many seconds
    pub case_budget_s: u64,
    pub max_boundaries: usize,
    pub random_subsets: usize,
    pub nested: usize,
    pub injections: usize,
    pub real_kills: usize,
}

pub fn params(prop: &'static str, tier: &str) -> EioParams {
    let t = tier == "thorough";
    EioParams {
        prop,
        case_budget_s: if t { 60 } else { 12 },
        max_boundaries: if t { 160 } else { 28 },
        random_subsets: if t { 6 } else { 2 },
        nested: if t { 6 } else { 2 },
        injections: if t { 120 } else { 24 },
        real_kills: if t { 10 } else { 3 },
    }
}

fn eio_cfg(rng: &mut Rng) -> Cfg {
    let mut c = Cfg::default_small();
    c.buckets = *rng.pick(&[96u32, 160, 256, 1024, 2048]);
    rng.fill(&mut c.bitbox_seed);
    c.commit_concurrency = *rng.pick(&[1usize, 2, 4]);
    c.io_workers = *rng.pick(&[1usize, 3]);
    c.rollback = rng.chance(2, 3);
    c.max_log = *rng.pick(&[1u32, 2, 3, 100]);
    c.seg_size = if c.rollback && rng.chance(2, 3) { *rng.pick(&[4096u64, 8192, 16384]) } else { 0 };
    c.page_cache_mb = *rng.pick(&[1usize, 8]);
    c.leaf_cache_mb = *rng.pick(&[0usize, 8]);
    c.warm_up = rng.chance(1, 3);
    c
}

fn apply_op(sut: &mut Sut<K>, rep: &mut Rep, rng: &mut Rng, op: &RecOp, ctx: &str) -> Result<(), String> {
    // Performs the operation on `sut` (model updated on success). Returns Err(msg) if the
    // operation reported an error (model untouched).
    match op {
        RecOp::Commit { batch, via } => {
            let view = sut.model.kv.clone();
            let mut sub = rep.sub();
            let prep = sut
                .prepare(&mut sub, rng, &[], &view, batch.clone(), false, 0, ctx)
                .ok_or_else(|| "prepare failed".to_string())?;
            let db = sut.db.as_ref().unwrap();
            let new_state = prep.new_state.clone();
            let res = match via {
                0 => guard(|| prep.fin.commit(db).map_err(|e| format!("{e:#}"))),
                1 => guard(|| match prep.fin.try_commit_nonblocking(db) {
                    Ok(None) => Ok(()),
                    Ok(Some(back)) => back.commit(db).map_err(|e| format!("{e:#}")),
                    Err(e) => Err(format!("{e:#}")),
                }),
                _ => {
                    let ov = prep.fin.into_overlay();
                    guard(|| ov.commit(db).map_err(|e| format!("{e:#}")))
                }
            };
            match res {
                Ok(Ok(())) => {
                    sut.model.commit_state(new_state);
                    Ok(())
                }
                Ok(Err(e)) => Err(e),
                Err(p) => Err(format!("PANIC: {p}")),
            }
        }
        RecOp::Rollback(n) => {
            let db = sut.db.as_ref().unwrap();
            match guard(|| db.rollback(*n).map_err(|e| format!("{e:#}"))) {
                Ok(Ok(())) => {
                    sut.model.rollback(*n);
                    Ok(())
                }
                Ok(Err(e)) => Err(e),
                Err(p) => Err(format!("PANIC: {p}")),
            }
        }
    }
}

/// Keep values below `max` bytes (every image copies the value file).
fn cap_values(mut b: Batch, max: usize) -> Batch {
    for (_, a) in b.iter_mut() {
        if let Access::Write(Some(v)) | Access::ReadThenWrite(Some(v)) = a {
            if v.len() > max {
                v.truncate(max - (v.len() % 977));
            }
        }
    }
    b
}

fn op_descr(op: &RecOp) -> String {
    match op {
        RecOp::Commit { batch, via } => {
            let w = batch_writes(batch);
            let maxlen = w.iter().filter_map(|(_, v)| v.as_ref().map(|v| v.len())).max().unwrap_or(0);
            format!("commit(via={via}, {} ops, {} writes, maxlen {maxlen})", batch.len(), w.len())
        }
        RecOp::Rollback(n) => format!("rollback({n})"),
    }
}

/// Compare an opened image with one model state. Returns a list of mismatch descriptions.
fn compare_state(db: &Db<K>, m: &Model<K>, keys: &[Key]) -> Vec<String> {
    let mut out = Vec::new();
    let root = db.root().into_inner();
    if root != m.root() {
        out.push(format!("root {} != {}", hex8(&root), hex8(&m.root())));
    }
    if db.sync_seqn() != m.seqn {
        out.push(format!("sync_seqn {} != {}", db.sync_seqn(), m.seqn));
    }
    let mut bad = 0;
    for k in keys {
        let want = m.kv.get(k).map(|v| v.bytes.clone());
        match guard(|| db.read(*k)) {
            Ok(Ok(got)) => {
                if got != want {
                    bad += 1;
                    if bad <= 2 {
                        out.push(format!("read({}) = {} want {}", hex8(k), crate::sut::descr(&got), crate::sut::descr(&want)));
                    }
                }
            }
            other => out.push(format!("read({}) failed: {:?}", hex8(k), other.map(|r| r.map(|_| ()).map_err(|e| e.to_string())))),
        }
    }
    if bad > 2 {
        out.push(format!("{bad} values differ"));
    }
    out
}

/// The image oracle shared by C03/C04/C14: open, identify the state, compare everything, continue.
#[allow(clippy::too_many_arguments)]
fn check_image(
    rep: &mut Rep,
    rng: &mut Rng,
    prop: &str,
    img: &Path,
    cfg: &Cfg,
    pre: &Model<K>,
    post: &Model<K>,
    req: Req,
    keys: &[Key],
    ctx: &str,
    deep: bool,
) {
    let claimed = match decode::read_meta(img) {
        Ok(m) => m.sync_seqn,
        Err(e) => {
            rep.fail(prop, "image-meta-unreadable", format!("{ctx}: {e}"));
            return;
        }
    };
    nomt::verif::set_seg_size_override(cfg.seg_size);
    let db = match guard(|| Db::<K>::open(cfg.options(img))) {
        Ok(Ok(db)) => db,
        Ok(Err(e)) => {
            let mut m = format!("{e:#}");
            m = format!("{m} [{}]", crate::sut::dir_summary(img));
            if std::env::var("NV_KEEP_FAILED").is_ok() {
                let keep = std::path::PathBuf::from(format!("/tmp/nv-failed-images/{}-{}", std::process::id(), rep.op_index));
                let _ = std::fs::create_dir_all("/tmp/nv-failed-images");
                let _ = shadow::copy_dir(img, &keep);
                m = format!("{m} [kept at {}]", keep.display());
            }
            if m.to_lowercase().contains("lock") {
                // diagnostics: who is still alive, and does the lock go away?
                let mut names = Vec::new();
                if let Ok(rd) = std::fs::read_dir("/proc/self/task") {
                    for t in rd.flatten() {
                        names.push(std::fs::read_to_string(t.path().join("comm")).unwrap_or_default().trim().to_string());
                    }
                }
                names.sort();
                if std::env::var("NV_KEEP_FAILED").is_ok() {
                    let out = format!("/tmp/nv-failed-images/gdb-{}-{}.txt", std::process::id(), rep.op_index);
                    let _ = std::process::Command::new("gdb")
                        .args(["-p", &std::process::id().to_string(), "-batch", "-ex", "thread apply all bt 14"])
                        .stdout(std::fs::File::create(&out).unwrap())
                        .stderr(std::process::Stdio::null())
                        .status();
                }
                std::thread::sleep(std::time::Duration::from_millis(500));
                let retry = match guard(|| Db::<K>::open(cfg.options(img))) {
                    Ok(Ok(_)) => "ok".to_string(),
                    Ok(Err(e)) => format!("still failing: {e:#}"),
                    Err(p) => format!("panic: {p}"),
                };
                m = format!("{m} [threads alive: {names:?}; retry after 500 ms: {retry}]");
            }
            rep.fail(prop, &format!("image-does-not-open:{}", msg_class(&m).chars().take(80).collect::<String>()), format!("{ctx}: Nomt::open failed: {m}"));
            return;
        }
        Err(p) => {
            rep.fail(prop, &format!("image-open-panic:{}", msg_class(&p)), format!("{ctx}: Nomt::open panicked: {p}"));
            return;
        }
    };
    let which = if claimed == post.seqn && post.seqn != pre.seqn {
        "post"
    } else if claimed == pre.seqn {
        "pre"
    } else {
        rep.fail(prop, "image-seqn-neither", format!("{ctx}: meta sync_seqn {claimed} is neither pre {} nor post {}", pre.seqn, post.seqn));
        return;
    };
    let m = if which == "post" { post } else { pre };
    match (req, which) {
        (Req::Pre, "post") => rep.fail(prop, "new-state-before-switch-over", format!("{ctx}: image shows the NEW state although the switch-over had not started")),
        (Req::Post, "pre") => rep.fail(prop, "old-state-after-success", format!("{ctx}: image shows the OLD state although the switch-over was complete (operation had returned / meta was durable)")),
        _ => {}
    }
    let mism = compare_state(&db, m, keys);
    if !mism.is_empty() {
        // does it match the other state instead? either way it is a mixed/wrong state
        rep.fail(
            prop,
            "image-state-mixed",
            format!("{ctx}: image claims the {which}-state (seqn {claimed}) but: {}", mism.join("; ")),
        );
        return;
    }
    // proofs
    let view = m.kv.clone();
    let root = kv_root::<K>(&view);
    let mut sut = Sut::<K> {
        dir: img.to_path_buf(),
        cfg: cfg.clone(),
        db: Some(db),
        model: m.clone(),
        dead: false,
    };
    {
        let mut sub = rep.sub();
        if let Ok(sess) = guard(|| sut.db().begin_session(SessionParams::default())) {
            let pk: Vec<Key> = keys.iter().take(12).copied().collect();
            sut.check_proofs(&mut sub, &sess, &view, root, &pk, ctx, true);
        }
        for f in &sub.findings {
            rep.fail(prop, &format!("image-proof:{}", f.sig), f.detail.clone());
        }
    }
    if deep {
        // on-disk structure of the recovered image (C16's decoder) incl. occupancy
        let mut sub = rep.sub();
        crate::emodel::decode_check::<K>(&sut, &mut sub, "recovered-image");
        for f in &sub.findings {
            rep.fail(prop, &format!("image-{}", f.sig), format!("{ctx} -> {}", f.detail));
        }
        // the store accepts a further commit (and rollback) that behaves as in the model
        let pool = KeyPool {
            keys: keys.to_vec(),
            descr: vec![],
        };
        let bp = BatchParams {
            size: 6,
            val: ValProfile::Small,
            w: [10, 30, 30, 20, 5, 5],
        };
        let batch = gen_batch(rng, &pool, &sut.model.kv, &bp, 0xabcdef00);
        let op = RecOp::Commit { batch, via: 0 };
        match apply_op(&mut sut, rep, rng, &op, ctx) {
            Ok(()) => {
                let mism = compare_state(sut.db(), &sut.model, keys);
                if !mism.is_empty() {
                    rep.fail(prop, "image-followup-commit-wrong", format!("{ctx}: after a further commit on the recovered {which}-state: {}", mism.join("; ")));
                }
                if sut.model.guaranteed() >= 1 {
                    match apply_op(&mut sut, rep, rng, &RecOp::Rollback(1), ctx) {
                        Ok(()) => {
                            let mism = compare_state(sut.db(), &sut.model, keys);
                            if !mism.is_empty() {
                                rep.fail(prop, "image-followup-rollback-wrong", format!("{ctx}: rollback(1) on the recovered image: {}", mism.join("; ")));
                            }
                        }
                        Err(e) => rep.fail(prop, &format!("image-followup-rollback-failed:{}", msg_class(&e)), format!("{ctx}: {e}")),
                    }
                }
            }
            Err(e) if e.contains("bucket exhaustion") => {}
            Err(e) => rep.fail(prop, &format!("image-followup-commit-failed:{}", msg_class(&e)), format!("{ctx}: further commit on the recovered {which}-state failed: {e}")),
        }
    }
    sut.db = None;
}

/// C04 (a): durability-order monitor over the event log of one successful operation.
fn durability_monitor(rep: &mut Rep, events: &[Event], returned_ok: bool, ctx: &str) {
    let Some((meta_pre, _meta_post, meta_fsync)) = shadow::meta_points(events) else {
        return;
    };
    rep.eval("C04", true);
    // (i) at the start of the meta write everything issued before on ln/bbn/wal/segments is durable
    let f = fold(events, meta_pre);
    for o in &f.ops {
        if matches!(o.ev.kind, Kind::Fsync | Kind::DirFsync | Kind::Unlink) {
            continue;
        }
        if o.ev.file == "ht" || o.ev.file == "meta" {
            continue;
        }
        if o.status == Status::InFlight {
            rep.fail(
                "C04",
                &format!("in-flight-at-switch-over:{}", o.ev.site),
                format!("{ctx}: {} is still in flight when the meta write starts", describe(&o.ev)),
            );
        } else if o.status == Status::Completed && !o.durable {
            rep.fail(
                "C04",
                &format!("not-durable-at-switch-over:{}:{}", o.ev.site, file_class(&o.ev.file)),
                format!("{ctx}: {} completed but is not covered by a completed fsync when the meta write starts", describe(&o.ev)),
            );
        }
    }
    // (ii) whenever the WAL is truncated, nothing on ht may be volatile
    for (pos, e) in events.iter().enumerate() {
        if e.phase == Phase::Pre && e.kind == Kind::SetLen && e.file == "wal" && e.offset == 0 {
            let f = fold(events, pos);
            for o in &f.ops {
                if o.ev.file == "ht" && !matches!(o.ev.kind, Kind::Fsync) && o.status != Status::Failed && !o.durable {
                    rep.fail(
                        "C04",
                        &format!("wal-dropped-before-ht-durable:{}", e.site),
                        format!("{ctx}: the WAL is truncated at [{}] while {} is not durable", e.site, describe(&o.ev)),
                    );
                    break;
                }
            }
        }
    }
    // (iii) success requires a completed meta fsync after the meta write
    if returned_ok && meta_fsync.is_none() {
        rep.fail("C04", "success-without-meta-fsync", format!("{ctx}: the operation returned success without a completed fsync of meta"));
    }
}

fn file_class(f: &str) -> &str {
    if f.starts_with("rollback") {
        "segment"
    } else {
        f
    }
}

/// Live record ranges of the rollback segments of an image: file -> (first live byte, end of last live record)
fn segment_live_ranges(dir: &Path, start: u64, end: u64) -> BTreeMap<String, (u64, u64)> {
    let mut out = BTreeMap::new();
    if start == 0 {
        return out;
    }
    if let Ok(rd) = std::fs::read_dir(dir) {
        for e in rd.flatten() {
            let name = e.file_name().to_string_lossy().to_string();
            if !name.starts_with("rollback") {
                continue;
            }
            let Ok(b) = std::fs::read(e.path()) else { continue };
            let mut pos = 0usize;
            while pos + 12 <= b.len() {
                let plen = u32::from_le_bytes(b[pos..pos + 4].try_into().unwrap()) as usize;
                let id = u64::from_le_bytes(b[pos + 4..pos + 12].try_into().unwrap());
                if id == 0 && plen == 0 {
                    break;
                }
                let rec_end = (pos + 12 + plen + 4095) / 4096 * 4096;
                if id >= start && id <= end {
                    let ent = out.entry(name.clone()).or_insert((pos as u64, rec_end as u64));
                    ent.1 = rec_end as u64;
                }
                pos = rec_end;
            }
        }
    }
    out
}

/// C17: nothing the pre-image references is written, truncated or unlinked before the switch-over
/// record is durable.
fn previous_image_monitor(rep: &mut Rep, base: &Path, events: &[Event], ctx: &str) {
    let mut d = decode::Decoded::default();
    let Ok(meta) = decode::read_meta(base) else { return };
    d.meta = meta.clone();
    decode::decode_beatree::<K>(base, &mut d);
    // the reference trie is not needed to list full buckets
    let empty = nvcore::reftrie::RefTrie::build::<K>(&[]);
    let mut d2 = decode::Decoded::default();
    d2.meta = meta.clone();
    decode::decode_bitbox(base, &mut d2, &empty);
    let seg_live = segment_live_ranges(base, meta.rollback_start_live, meta.rollback_end_live);
    let seg_len: BTreeMap<String, u64> = std::fs::read_dir(base)
        .map(|rd| {
            rd.flatten()
                .filter_map(|e| {
                    let n = e.file_name().to_string_lossy().to_string();
                    n.starts_with("rollback").then(|| (n, e.metadata().map(|m| m.len()).unwrap_or(0)))
                })
                .collect()
        })
        .unwrap_or_default();
    let durable_at = events
        .iter()
        .position(|e| e.site == "meta_fsync" && e.phase == Phase::Post && e.ok)
        .unwrap_or(events.len());
    let freed_or_reused = !d.ln_free_items.is_empty() || !d.bbn_free_items.is_empty();
    rep.eval("C17", freed_or_reused);
    let mut writes_checked = 0u64;
    for e in events.iter().take(durable_at) {
        if e.phase != Phase::Pre || !e.ok {
            continue;
        }
        let viol: Option<String> = match (e.file.as_str(), e.kind) {
            ("ln", Kind::UringWrite | Kind::Write) => {
                writes_checked += 1;
                let pn = (e.offset / 4096) as u32;
                if d.ln_live.contains(&pn) {
                    Some(format!("page {pn} of ln is a live leaf/overflow page of the previous state"))
                } else if d.ln_list_pages.contains(&pn) {
                    Some(format!("page {pn} of ln is a free-list page of the previous state"))
                } else if pn < meta.ln_bump && !d.ln_free_items.contains(&pn) {
                    Some(format!("page {pn} of ln is below the previous frontier {} and was not free", meta.ln_bump))
                } else {
                    None
                }
            }
            ("bbn", Kind::UringWrite | Kind::Write) => {
                writes_checked += 1;
                let pn = (e.offset / 4096) as u32;
                if d.bbn_live.contains(&pn) {
                    Some(format!("page {pn} of bbn is a live branch page of the previous state"))
                } else if d.bbn_list_pages.contains(&pn) {
                    Some(format!("page {pn} of bbn is a free-list page of the previous state"))
                } else if pn < meta.bbn_bump && !d.bbn_free_items.contains(&pn) {
                    Some(format!("page {pn} of bbn is below the previous frontier {} and was not free", meta.bbn_bump))
                } else {
                    None
                }
            }
            ("ln", Kind::SetLen) => (e.offset < d.ln_len_pages as u64 * 4096).then(|| format!("ln truncated to {} below its previous length", e.offset)),
            ("bbn", Kind::SetLen) => (e.offset < d.bbn_len_pages as u64 * 4096).then(|| format!("bbn truncated to {} below its previous length", e.offset)),
            ("ht", Kind::UringWrite | Kind::Write) => {
                writes_checked += 1;
                let pg = e.offset / 4096;
                if pg < d2.ht_meta_pages {
                    Some(format!("occupancy-map page {pg} of ht"))
                } else if d2.ht_full_pages.contains(&pg) {
                    Some(format!("stored merkle page at ht page {pg}"))
                } else {
                    None
                }
            }
            ("ht", Kind::SetLen) => Some("ht resized".to_string()),
            ("meta", k) if e.site != "meta_write" && e.site != "meta_fsync" && !matches!(k, Kind::Fsync) => Some("meta touched outside the switch-over".into()),
            (f, Kind::Unlink) if f.starts_with("rollback") => seg_live.contains_key(f).then(|| format!("segment {f} holding live rollback records unlinked")),
            (f, Kind::SetLen) if f.starts_with("rollback") => seg_live.get(f).and_then(|(_, end)| (e.offset < *end).then(|| format!("segment {f} truncated to {} inside its live records (end {end})", e.offset))),
            (f, Kind::Append | Kind::Write) if f.starts_with("rollback") => {
                let old_len = seg_len.get(f).copied().unwrap_or(0);
                let live_end = seg_live.get(f).map_or(0, |x| x.1);
                (e.offset < live_end.min(old_len)).then(|| format!("segment {f} written at {} inside its live records", e.offset))
            }
            _ => None,
        };
        if let Some(v) = viol {
            rep.fail(
                "C17",
                &format!("previous-image-touched:{}:{}", file_class(&e.file), e.site),
                format!("{ctx}: before the switch-over record was durable: {} -> {v}", describe(e)),
            );
            break;
        }
    }
    rep.feat("c17_writes_checked", writes_checked);
}

fn pick_boundaries(rng: &mut Rng, events: &[Event], max: usize) -> Vec<usize> {
    let n = events.len();
    let mut set = std::collections::BTreeSet::new();
    set.insert(0);
    set.insert(n);
    for (i, e) in events.iter().enumerate() {
        // around every fsync, the meta write and size-changing operations
        if matches!(e.kind, Kind::Fsync | Kind::DirFsync | Kind::SetLen | Kind::Unlink | Kind::Create) || e.site.starts_with("meta") || e.site.starts_with("wal") {
            set.insert(i);
            set.insert((i + 1).min(n));
        }
    }
    let mut v: Vec<usize> = set.into_iter().collect();
    if v.len() > max {
        rng.shuffle(&mut v);
        v.truncate(max * 2 / 3);
    }
    while v.len() < max.min(n + 1) {
        let k = rng.usize_below(n + 1);
        if !v.contains(&k) {
            v.push(k);
        }
    }
    v.sort();
    v.dedup();
    v
}

pub struct Recorded {
    pub op: RecOp,
    pub base: PathBuf,
    pub pre: Model<K>,
    pub post: Model<K>,
    pub events: Vec<Event>,
    pub keys: Vec<Key>,
    pub ok: bool,
}

/// One E-IO case for property `prop`.
thread_local! {
    static CASE_START: std::cell::Cell<Option<std::time::Instant>> = std::cell::Cell::new(None);
}

fn over_budget(p: &EioParams) -> bool {
    CASE_START.with(|c| c.get().map_or(false, |t| t.elapsed().as_secs() >= p.case_budget_s))
}

pub fn run_case(prop: &'static str, tier: &str, seed: u64, scratch: &Path, rep: &mut Rep) {
    let p = params(prop, tier);
    CASE_START.with(|c| c.set(Some(std::time::Instant::now())));
    let mut rng = Rng::new(derive(seed, &[11]));
    let cfg = eio_cfg(&mut rng);
    let live = scratch.join("live");
    let _ = std::fs::remove_dir_all(scratch);
    std::fs::create_dir_all(scratch).unwrap();
    let rec = recorder();
    rec.start(&live, Mode::Off);
    let pool_size = rng.range(30, 300) as usize;
    let kp = [KeyProfile::Uniform, KeyProfile::Mixed, KeyProfile::Clustered][rng.usize_below(3)];
    let pool = KeyPool::generate(&mut rng, pool_size, kp);
    rep.sample(
        "_case",
        json!({"engine": "E-IO", "prop": prop, "seed": seed, "cfg": cfg.to_json(), "pool": pool.keys.len()}),
    );
    let Some(mut sut) = Sut::<K>::create(&live, cfg.clone(), rep) else { return };
    let mut stamp = seed << 16;
    let mut mk_batch = |rng: &mut Rng, sut: &Sut<K>, size: usize, val: ValProfile| -> Batch {
        stamp += 4096;
        let bp = BatchParams {
            size,
            val,
            w: [5, 35, 25, 20, 5, 10],
        };
        gen_batch(rng, &pool, &sut.model.kv, &bp, stamp)
    };
    // warm-up history (not recorded)
    for i in 0..rng.range(1, 5) {
        let sz = rng.range(5, 120) as usize;
        let b = mk_batch(&mut rng, &sut, sz, if i == 0 { ValProfile::Boundary } else { ValProfile::Small });
        let b = cap_values(b, 70_000);
        let via = rng.below(3);
        let op = RecOp::Commit { batch: b, via };
        if apply_op(&mut sut, rep, &mut rng, &op, "warm-up").is_err() {
            return;
        }
    }
    if rng.chance(1, 2) {
        // churn: delete most keys and insert others, so that buckets get tombstoned and reused
        for _ in 0..rng.range(1, 3) {
            let mut b: Batch = Vec::new();
            for k in sut.model.kv.keys() {
                if rng.chance(3, 4) {
                    b.push((*k, Access::Write(None)));
                }
            }
            if !b.is_empty() && apply_op(&mut sut, rep, &mut rng, &RecOp::Commit { batch: b, via: 0 }, "churn-delete").is_err() {
                return;
            }
            let sz = rng.range(20, 150) as usize;
            let b = cap_values(mk_batch(&mut rng, &sut, sz, ValProfile::Small), 70_000);
            if apply_op(&mut sut, rep, &mut rng, &RecOp::Commit { batch: b, via: 0 }, "churn-insert").is_err() {
                return;
            }
        }
    }
    let n_rec = rng.range(2, 4);
    for r in 0..n_rec {
        if rep.diverged {
            break;
        }
        rep.op_index = r + 1;
        // choose the operation
        let op = if sut.model.guaranteed() >= 1 && rng.chance(1, 3) {
            RecOp::Rollback(rng.range(1, sut.model.guaranteed() as u64) as usize)
        } else {
            let size = *rng.pick(&[1usize, 4, 20, 60, 150]);
            let val = if rng.chance(1, 3) { ValProfile::Boundary } else { ValProfile::Small };
            RecOp::Commit {
                batch: cap_values(mk_batch(&mut rng, &sut, size, val), 70_000),
                via: rng.below(3),
            }
        };
        let base = scratch.join(format!("base{r}"));
        if shadow::copy_dir(&live, &base).is_err() {
            rep.inconclusive.push("cannot snapshot base".into());
            return;
        }
        let pre = sut.model.clone();
        let mut keys: Vec<Key> = match &op {
            RecOp::Commit { batch, .. } => batch.iter().map(|x| x.0).collect(),
            _ => Vec::new(),
        };
        keys.extend(sut.probe_keys(&mut rng, &[], 24, 6));
        let ctx0 = format!("recorded op#{r} {}", op_descr(&op));
        rec.start(&live, Mode::Record);
        let res = apply_op(&mut sut, rep, &mut rng, &op, &ctx0);
        let events = rec.stop();
        rep.t(format!("{ctx0}: {} log entries, result {:?}", events.len(), res.as_ref().map(|_| ())));
        if let Err(e) = &res {
            if !e.contains("bucket exhaustion") {
                rep.inconclusive.push(format!("{ctx0}: fault-free operation failed: {e}"));
            }
            return;
        }
        let post = sut.model.clone();
        if let Some(mut more) = Some(sut.probe_keys(&mut rng, &[], 12, 0)) {
            keys.append(&mut more);
        }
        let n_mut = events.iter().filter(|e| e.phase == Phase::Pre).count();
        rep.feat("recorded_ops", 1);
        rep.feat("recorded_mutating_events", n_mut as u64);
        rep.feat_max("max_events_in_one_op", n_mut as u64);
        for e in events.iter().filter(|e| e.phase == Phase::Pre) {
            rep.feat(&format!("events_at_site:{}", e.site), 1);
        }
        let recd = Recorded {
            op: op.clone(),
            base: base.clone(),
            pre,
            post,
            events,
            keys,
            ok: true,
        };
        if rep.samples.get(prop).map_or(true, |s| s.len() < 2) {
            rep.sample(
                prop,
                json!({"op": op_descr(&op), "events": recd.events.len(), "trace_head": recd.events.iter().take(14).map(describe).collect::<Vec<_>>(),
                       "trace_around_meta": shadow::meta_points(&recd.events).map(|(a, _, _)| recd.events[a.saturating_sub(4)..(a + 6).min(recd.events.len())].iter().map(describe).collect::<Vec<_>>())}),
            );
        }
        match prop {
            "C17" => {
                previous_image_monitor(rep, &base, &recd.events, &ctx0);
                c17_injected(rep, &mut rng, &cfg, &recd, scratch, &ctx0);
            }
            "C04" => {
                durability_monitor(rep, &recd.events, true, &ctx0);
                images(rep, &mut rng, &p, &cfg, &recd, scratch, &ctx0, false);
            }
            "C03" => {
                images(rep, &mut rng, &p, &cfg, &recd, scratch, &ctx0, true);
                real_kills(rep, &mut rng, &p, &cfg, &recd, scratch, &ctx0);
            }
            "C14" => injections(rep, &mut rng, &p, &cfg, &recd, scratch, &ctx0),
            _ => {}
        }
        let _ = std::fs::remove_dir_all(&base);
    }
    sut.db = None;
    rec.start(&live, Mode::Off);
    let _ = std::fs::remove_dir_all(scratch);
}

#[allow(clippy::too_many_arguments)]
fn images(rep: &mut Rep, rng: &mut Rng, p: &EioParams, cfg: &Cfg, r: &Recorded, scratch: &Path, ctx0: &str, process_crash: bool) {
    let prop = p.prop;
    let Some((meta_pre, meta_post, meta_fsync)) = shadow::meta_points(&r.events) else {
        rep.inconclusive.push(format!("{ctx0}: no meta write in the log"));
        return;
    };
    let n = r.events.len();
    let first_write = r.events.iter().position(|e| e.phase == Phase::Pre).unwrap_or(0);
    let bounds = pick_boundaries(rng, &r.events, p.max_boundaries);
    let img = scratch.join("img");
    let mut nested_left = p.nested;
    for k in bounds {
        if rep.diverged {
            return;
        }
        if over_budget(p) {
            rep.feat("cases_cut_by_time_budget", 1);
            break;
        }
        let f = fold(&r.events, k);
        let mut policies: Vec<Policy> = Vec::new();
        if process_crash {
            policies.push(Policy::ProcessCrash { inflight: InFlight::Dropped });
            if f.ops.iter().any(|o| o.status == Status::InFlight) {
                policies.push(Policy::ProcessCrash { inflight: InFlight::Applied });
                policies.push(Policy::ProcessCrash { inflight: InFlight::Random(rng.next_u64()) });
            }
        } else {
            let vol: Vec<usize> = f.ops.iter().enumerate().filter(|(_, o)| !o.durable && o.status != Status::Failed && !matches!(o.ev.kind, Kind::Fsync | Kind::DirFsync)).map(|(i, _)| i).collect();
            if vol.is_empty() {
                policies.push(Policy::LoseAllVolatile);
            } else {
                policies.push(Policy::LoseAllVolatile);
                policies.push(Policy::KeepAllVolatile);
                let n_pages = f.ops.iter().filter(|o| !o.durable && o.status != Status::Failed && matches!(o.ev.kind, Kind::UringWrite | Kind::Write)).count();
                if n_pages > 0 {
                    policies.push(Policy::LoseOne(rng.usize_below(n_pages)));
                    policies.push(Policy::KeepOne(rng.usize_below(n_pages)));
                }
                if f.ops.iter().any(|o| !o.durable && o.ev.data.as_ref().map_or(false, |d| d.len() > 4096)) {
                    policies.push(Policy::TornLast(rng.range(0, 3) as usize));
                }
                for _ in 0..p.random_subsets {
                    policies.push(Policy::Random(rng.next_u64()));
                }
            }
        }
        for pol in policies {
            if rep.diverged {
                return;
            }
            let (apply, volatile) = choose(&f, &pol);
            if materialise(&r.base, &img, &f, &apply).is_err() {
                rep.inconclusive.push("materialise failed".into());
                continue;
            }
            // what is required at this boundary
            let req = if process_crash {
                if k <= meta_pre {
                    Req::Pre
                } else if k > meta_post {
                    Req::Post
                } else {
                    Req::Either
                }
            } else {
                // power loss: the switch-over is the completion of the meta fsync
                if k <= meta_pre {
                    Req::Pre
                } else if meta_fsync.map_or(false, |mf| k > mf) {
                    Req::Post
                } else {
                    Req::Either
                }
            };
            let nontrivial = if process_crash {
                k > first_write && k < n
            } else {
                volatile > 0 && !matches!(pol, Policy::KeepAllVolatile)
            };
            rep.eval_keyed(prop, nontrivial, derive(rep.case_seed, &[rep.op_index, k as u64, nvcore::rng::tag(&format!("{pol:?}"))]));
            let ctx = format!("{ctx0} crash at log position {k}/{n} (meta write at {meta_pre}..{meta_post}) policy {pol:?}");
            check_image(rep, rng, prop, &img, cfg, &r.pre, &r.post, req, &r.keys, &ctx, true);
            rep.feat("images_checked", 1);
            if rep.diverged && std::env::var("NV_DEBUG_HT").is_ok() {
                // compare the recovered hash table with the live one (true post-state)
                let live = scratch.join("live");
                if let (Ok(a), Ok(b)) = (std::fs::read(img.join("ht")), std::fs::read(live.join("ht"))) {
                    let mut lines = Vec::new();
                    for pg in 0..a.len().min(b.len()) / 4096 {
                        let (pa, pb) = (&a[pg * 4096..pg * 4096 + 4096], &b[pg * 4096..pg * 4096 + 4096]);
                        if pa != pb {
                            let nodes: Vec<usize> = (0..126).filter(|i| pa[i * 32..i * 32 + 32] != pb[i * 32..i * 32 + 32]).collect();
                            let zero_in_live: Vec<usize> = nodes.iter().copied().filter(|i| pb[i * 32..i * 32 + 32] == [0u8; 32]).collect();
                            lines.push(format!(
                                "ht page {pg}: {} nodes differ {:?} (of which zero in live: {:?}); elided img {:02x?} live {:02x?}; label equal {}",
                                nodes.len(), &nodes[..nodes.len().min(12)], &zero_in_live[..zero_in_live.len().min(12)],
                                &pa[4056..4064], &pb[4056..4064], pa[4064..] == pb[4064..]
                            ));
                        }
                    }
                    rep.fail(prop, "debug-ht", format!("HT-DEBUG {}", lines.join(" || ")));
                    eprintln!("HT-DEBUG {ctx}: {}", lines.join(" || "));
                }
            }
            // nested crash: crash again inside the recovery of this image
            if process_crash && nested_left > 0 && !rep.diverged && k > meta_pre && rng.chance(1, 3) {
                nested_left -= 1;
                nested(rep, rng, p, cfg, r, scratch, &f, &apply, &ctx, false);
            }
            // power loss inside the recovery: the image in which everything written so far reached
            // the disk is what a restarted process finds; its recovery is recorded and power is lost
            // again inside it (everything the recovery wrote is volatile until the recovery fsyncs it).
            // Uses its own derived PRNG so the main stream of the case is the same as without it.
            if !process_crash
                && (volatile == 0 || matches!(pol, Policy::KeepAllVolatile))
                && nested_left > 0
                && !rep.diverged
                && k > meta_pre
                && derive(rep.case_seed, &[rep.op_index, k as u64, 4242]) % 3 == 0
            {
                nested_left -= 1;
                let mut nrng = Rng::new(derive(rep.case_seed, &[rep.op_index, k as u64, 4243]));
                nested(rep, &mut nrng, p, cfg, r, scratch, &f, &apply, &ctx, true);
            }
        }
    }
    let _ = std::fs::remove_dir_all(&img);
}

/// Record the recovery (`Nomt::open`) of an image and crash inside it.
#[allow(clippy::too_many_arguments)]
fn nested(rep: &mut Rep, rng: &mut Rng, p: &EioParams, cfg: &Cfg, r: &Recorded, scratch: &Path, f: &shadow::Folded, apply: &[Option<usize>], ctx: &str, power: bool) {
    let prop = p.prop;
    let nbase = scratch.join("nbase");
    let nlive = scratch.join("nlive");
    if materialise(&r.base, &nbase, f, apply).is_err() || shadow::copy_dir(&nbase, &nlive).is_err() {
        return;
    }
    let rec = recorder();
    rec.start(&nlive, Mode::Record);
    nomt::verif::set_seg_size_override(cfg.seg_size);
    let opened = guard(|| Db::<K>::open(cfg.options(&nlive)));
    let ev = rec.stop();
    if let Ok(Ok(db)) = opened {
        drop(db);
    }
    let n_mut = ev.iter().filter(|e| e.phase == Phase::Pre).count();
    rep.feat("recovery_opens_recorded", 1);
    rep.feat("recovery_mutating_events", n_mut as u64);
    if n_mut == 0 {
        return;
    }
    let nimg = scratch.join("nimg");
    let total = ev.len();
    for k2 in pick_boundaries(rng, &ev, 8) {
        let f2 = fold(&ev, k2);
        let pols = if power {
            vec![Policy::LoseAllVolatile, Policy::Random(rng.next_u64()), Policy::Random(rng.next_u64())]
        } else {
            vec![Policy::ProcessCrash { inflight: InFlight::Dropped }, Policy::ProcessCrash { inflight: InFlight::Applied }]
        };
        for pol in pols {
            let (a2, vol2) = choose(&f2, &pol);
            if materialise(&nbase, &nimg, &f2, &a2).is_err() {
                continue;
            }
            let nontrivial = if power { vol2 > 0 } else { k2 > 0 && k2 < total };
            rep.eval_keyed(prop, nontrivial, derive(rep.case_seed, &[rep.op_index, 7777, k2 as u64, nvcore::rng::tag(&format!("{pol:?}{ctx}"))]));
            let ctx2 = if power {
                format!("{ctx} THEN power loss at position {k2}/{total} of the recovery, policy {pol:?}")
            } else {
                format!("{ctx} THEN crash at position {k2}/{total} of the recovery")
            };
            check_image(rep, rng, prop, &nimg, cfg, &r.pre, &r.post, Req::Either, &r.keys, &ctx2, false);
            rep.feat(if power { "nested_power_loss_images_checked" } else { "nested_images_checked" }, 1);
            if rep.diverged {
                break;
            }
        }
    }
    let _ = std::fs::remove_dir_all(&nbase);
    let _ = std::fs::remove_dir_all(&nlive);
    let _ = std::fs::remove_dir_all(&nimg);
}

/// Serialise an operation for the kill child.
fn write_opfile(path: &Path, op: &RecOp) -> std::io::Result<()> {
    let mut b: Vec<u8> = Vec::new();
    match op {
        RecOp::Rollback(n) => {
            b.push(1);
            b.extend_from_slice(&(*n as u32).to_le_bytes());
        }
        RecOp::Commit { batch, via } => {
            b.push(0);
            b.push(*via as u8);
            b.extend_from_slice(&(batch.len() as u32).to_le_bytes());
            for (k, a) in batch {
                b.extend_from_slice(k);
                let (kind, val) = match a {
                    Access::Read => (0u8, None),
                    Access::Write(v) => (1, Some(v)),
                    Access::ReadThenWrite(v) => (2, Some(v)),
                };
                b.push(kind);
                match val {
                    Some(Some(v)) => {
                        b.push(1);
                        b.extend_from_slice(&(v.len() as u32).to_le_bytes());
                        b.extend_from_slice(v);
                    }
                    _ => b.push(0),
                }
            }
        }
    }
    std::fs::write(path, b)
}

fn read_opfile(path: &Path) -> Option<RecOp> {
    let b = std::fs::read(path).ok()?;
    let mut p = 0usize;
    let tag = *b.get(p)?;
    p += 1;
    if tag == 1 {
        return Some(RecOp::Rollback(u32::from_le_bytes(b[p..p + 4].try_into().ok()?) as usize));
    }
    let via = *b.get(p)? as u64;
    p += 1;
    let n = u32::from_le_bytes(b[p..p + 4].try_into().ok()?) as usize;
    p += 4;
    let mut batch = Vec::with_capacity(n);
    for _ in 0..n {
        let k: Key = b[p..p + 32].try_into().ok()?;
        p += 32;
        let kind = b[p];
        let has = b[p + 1];
        p += 2;
        let val = if has == 1 {
            let l = u32::from_le_bytes(b[p..p + 4].try_into().ok()?) as usize;
            p += 4;
            let v = b[p..p + l].to_vec();
            p += l;
            Some(v)
        } else {
            None
        };
        batch.push((
            k,
            match kind {
                0 => Access::Read,
                1 => Access::Write(val),
                _ => Access::ReadThenWrite(val),
            },
        ));
    }
    Some(RecOp::Commit { batch, via })
}

/// Entry point of the kill child: `nv killchild <dir> <opfile> <k> <cfg...>`. Opens the directory,
/// arms the kill rule and performs the operation through the raw API.
pub fn killchild(args: &[String]) -> i32 {
    use nomt::KeyReadWrite;
    let dir = PathBuf::from(&args[0]);
    let Some(op) = read_opfile(Path::new(&args[1])) else { return 5 };
    let k: u64 = args[2].parse().unwrap_or(0);
    let mut cfg = Cfg::default_small();
    cfg.commit_concurrency = args[3].parse().unwrap_or(1);
    cfg.io_workers = args[4].parse().unwrap_or(1);
    cfg.rollback = args[5] == "1";
    cfg.max_log = args[6].parse().unwrap_or(100);
    cfg.seg_size = args[7].parse().unwrap_or(0);
    cfg.warm_up = args[8] == "1";
    cfg.page_cache_mb = args[9].parse().unwrap_or(8);
    cfg.leaf_cache_mb = args[10].parse().unwrap_or(8);
    let rec = recorder();
    rec.start(&dir, Mode::Off);
    nomt::verif::set_seg_size_override(cfg.seg_size);
    let Ok(db) = Db::<K>::open(cfg.options(&dir)) else { return 4 };
    rec.start(&dir, Mode::KillAt { at: k });
    let ok = match op {
        RecOp::Rollback(n) => db.rollback(n).is_ok(),
        RecOp::Commit { batch, via } => {
            let sess = db.begin_session(SessionParams::default());
            let mut actuals = Vec::new();
            for (key, a) in &batch {
                let rw = match a {
                    Access::Read => KeyReadWrite::Read(sess.read(*key).unwrap_or(None)),
                    Access::Write(v) => KeyReadWrite::Write(v.clone()),
                    Access::ReadThenWrite(v) => KeyReadWrite::ReadThenWrite(sess.read(*key).unwrap_or(None), v.clone()),
                };
                actuals.push((*key, rw));
            }
            match sess.finish(actuals) {
                Err(_) => false,
                Ok(fin) => match via {
                    0 => fin.commit(&db).is_ok(),
                    1 => match fin.try_commit_nonblocking(&db) {
                        Ok(None) => true,
                        Ok(Some(back)) => back.commit(&db).is_ok(),
                        Err(_) => false,
                    },
                    _ => fin.into_overlay().commit(&db).is_ok(),
                },
            }
        }
    };
    // not killed: fewer events than planned
    if ok {
        0
    } else {
        3
    }
}

/// Cross-validation with the kernel: re-run the operation in a child process that `_exit`s at
/// mutating event k, then check the real directory.
fn real_kills(rep: &mut Rep, rng: &mut Rng, p: &EioParams, cfg: &Cfg, r: &Recorded, scratch: &Path, ctx0: &str) {
    let n_mut = r.events.iter().filter(|e| e.phase == Phase::Pre).count() as u64;
    if n_mut == 0 {
        return;
    }
    let opfile = scratch.join("op.bin");
    if write_opfile(&opfile, &r.op).is_err() {
        return;
    }
    let exe = std::env::current_exe().unwrap();
    for _ in 0..p.real_kills {
        if rep.diverged {
            return;
        }
        let k = rng.below(n_mut);
        let work = scratch.join("kill");
        if shadow::copy_dir(&r.base, &work).is_err() {
            continue;
        }
        let child = std::process::Command::new(&exe)
            .arg("killchild")
            .arg(&work)
            .arg(&opfile)
            .arg(k.to_string())
            .args([
                cfg.commit_concurrency.to_string(),
                cfg.io_workers.to_string(),
                (cfg.rollback as u8).to_string(),
                cfg.max_log.to_string(),
                cfg.seg_size.to_string(),
                (cfg.warm_up as u8).to_string(),
                cfg.page_cache_mb.to_string(),
                cfg.leaf_cache_mb.to_string(),
            ])
            .stdout(std::process::Stdio::null())
            .stderr(std::process::Stdio::null())
            .spawn();
        let Ok(mut child) = child else {
            rep.inconclusive.push("cannot spawn kill child".into());
            return;
        };
        let t0 = std::time::Instant::now();
        let code = loop {
            match child.try_wait() {
                Ok(Some(st)) => break st.code().unwrap_or(-1),
                Ok(None) => {
                    if t0.elapsed().as_secs() > 120 {
                        let _ = child.kill();
                        let _ = child.wait();
                        break -2;
                    }
                    std::thread::sleep(std::time::Duration::from_millis(3));
                }
                Err(_) => break -3,
            }
        };
        let ctx = format!("{ctx0} REAL kill (_exit) at mutating event {k}/{n_mut}, child exit code {code}");
        rep.eval_keyed("C03", code == 86, derive(rep.case_seed, &[rep.op_index, 9999, k]));
        match code {
            86 => {
                check_image(rep, rng, "C03", &work, cfg, &r.pre, &r.post, Req::Either, &r.keys, &ctx, false);
                rep.feat("real_kill_images_checked", 1);
            }
            0 => {
                check_image(rep, rng, "C03", &work, cfg, &r.pre, &r.post, Req::Post, &r.keys, &ctx, false);
                rep.feat("real_kill_child_finished_before_k", 1);
            }
            other => rep.inconclusive.push(format!("{ctx}: child ended with {other}")),
        }
        let _ = std::fs::remove_dir_all(&work);
    }
}

/// C17 under faults: if the switch-over record does not become durable (the meta write or its
/// fsync fails), nothing the previous image references may be touched at all.
fn c17_injected(rep: &mut Rep, rng: &mut Rng, cfg: &Cfg, r: &Recorded, scratch: &Path, ctx0: &str) {
    let ks: Vec<(u64, &'static str)> = r
        .events
        .iter()
        .filter(|e| e.phase == Phase::Pre && (e.site == "meta_write" || e.site == "meta_fsync"))
        .map(|e| (e.mut_index, e.site))
        .collect();
    let rec = recorder();
    for (k, site) in ks {
        if rep.diverged {
            return;
        }
        let work = scratch.join("inj17");
        if shadow::copy_dir(&r.base, &work).is_err() {
            continue;
        }
        rec.start(&work, Mode::Off);
        nomt::verif::set_seg_size_override(cfg.seg_size);
        let Ok(Ok(db)) = guard(|| Db::<K>::open(cfg.options(&work))) else { continue };
        let mut sut = Sut::<K> {
            dir: work.clone(),
            cfg: cfg.clone(),
            db: Some(db),
            model: r.pre.clone(),
            dead: false,
        };
        rec.start(&work, Mode::Inject { at: k, errno: libc::EIO, persistent: false });
        let mut sub = rep.sub();
        let _ = apply_op(&mut sut, &mut sub, rng, &r.op, ctx0);
        let injected_at_site = {
            let st = rec.st.lock();
            st.injected > 0 && st.injected_site.as_ref().map_or(false, |x| x.0 == site)
        };
        let events = rec.stop();
        sut.db = None;
        if injected_at_site {
            let ctx = format!("{ctx0} with EIO injected at {site}");
            previous_image_monitor(rep, &r.base, &events, &ctx);
            rep.feat("c17_failed_switch_over_runs", 1);
        }
        let _ = std::fs::remove_dir_all(&work);
    }
}

/// C14: inject an OS error at mutating event k.
fn injections(rep: &mut Rep, rng: &mut Rng, p: &EioParams, cfg: &Cfg, r: &Recorded, scratch: &Path, ctx0: &str) {
    let pres: Vec<&Event> = r.events.iter().filter(|e| e.phase == Phase::Pre).collect();
    let n_mut = pres.len() as u64;
    let cands: Vec<u64> = pres.iter().filter(|e| is_injectable(e.kind)).map(|e| e.mut_index).collect();
    if cands.is_empty() {
        return;
    }
    // all sync sites, plus a sample of the (many) page writes
    let mut ks: Vec<u64> = pres.iter().filter(|e| is_injectable(e.kind) && e.kind != Kind::UringWrite).map(|e| e.mut_index).collect();
    let uring: Vec<u64> = pres.iter().filter(|e| e.kind == Kind::UringWrite).map(|e| e.mut_index).collect();
    for _ in 0..(p.injections / 3).max(4) {
        if !uring.is_empty() {
            ks.push(*rng.pick(&uring));
        }
    }
    rng.shuffle(&mut ks);
    ks.truncate(p.injections);
    let rec = recorder();
    for k in ks {
        if rep.diverged {
            return;
        }
        if over_budget(p) {
            rep.feat("cases_cut_by_time_budget", 1);
            break;
        }
        let persistent = rng.chance(1, 3);
        let work = scratch.join("inj");
        if shadow::copy_dir(&r.base, &work).is_err() {
            continue;
        }
        rec.start(&work, Mode::Off);
        nomt::verif::set_seg_size_override(cfg.seg_size);
        let db = match guard(|| Db::<K>::open(cfg.options(&work))) {
            Ok(Ok(db)) => db,
            other => {
                rep.inconclusive.push(format!("{ctx0}: cannot open the base copy: {:?}", other.map(|r| r.map(|_| ()).map_err(|e| format!("{e:#}")))));
                continue;
            }
        };
        let mut sut = Sut::<K> {
            dir: work.clone(),
            cfg: cfg.clone(),
            db: Some(db),
            model: r.pre.clone(),
            dead: false,
        };
        rec.start(&work, Mode::Inject { at: k, errno: libc::EIO, persistent });
        let res = apply_op(&mut sut, rep, rng, &r.op, ctx0);
        let (injected, site) = {
            let st = rec.st.lock();
            (st.injected, st.injected_site.clone())
        };
        rec.start(&work, Mode::Off);
        if injected == 0 {
            // this run had fewer events (schedules differ); nothing was injected
            rep.feat("injection_not_reached", 1);
            sut.db = None;
            continue;
        }
        let (site_name, kind, file) = site.unwrap();
        let dbg1 = if std::env::var("NV_KEEP_FAILED").is_ok() { crate::sut::dir_summary(&work) } else { String::new() };
        let ctx = format!("{ctx0}: EIO injected at mutating event {k}/{n_mut} = {kind:?} {file} [{site_name}] persistent={persistent} res={res:?} AFTER-OP[{dbg1}]");
        rep.eval_keyed("C14", k > 0, derive(rep.case_seed, &[rep.op_index, k, persistent as u64]));
        rep.feat(&format!("injected_at:{site_name}"), 1);
        let db = sut.db.as_ref().unwrap();
        match &res {
            Ok(()) => {
                rep.fail(
                    "C14",
                    &format!("failure-swallowed:{site_name}:{}", file_class(&file)),
                    format!("{ctx}: the operation returned success"),
                );
            }
            Err(e) if e.starts_with("PANIC") => {
                rep.fail("C14", &format!("panic-on-io-error:{site_name}"), format!("{ctx}: {e}"));
            }
            Err(_) => {
                if !db.is_poisoned() {
                    rep.fail(
                        "C14",
                        &format!("not-poisoned:{site_name}:{}", file_class(&file)),
                        format!("{ctx}: the operation returned an error but is_poisoned() is false"),
                    );
                }
                // further commits are refused
                let b: Batch = vec![(rng.key(), Access::Write(Some(vec![1, 2, 3])))];
                let mut sub = rep.sub();
                let view = sut.model.kv.clone();
                let prep_opt = sut.prepare(&mut sub, rng, &[], &view, b, false, 0, &ctx);
                if prep_opt.is_none() && std::env::var("NV_KEEP_FAILED").is_ok() {
                    use std::io::Write;
                    let _ = std::fs::create_dir_all("/tmp/nv-failed-images");
                    if let Ok(mut f) = std::fs::OpenOptions::new().create(true).append(true).open("/tmp/nv-failed-images/prepare_fail.txt") {
                        let _ = writeln!(f, "pid {} site {site_name}: prepare on the poisoned handle failed: {:?}", std::process::id(), sub.findings.iter().map(|f| format!("{}:{}", f.sig, f.detail.chars().take(200).collect::<String>())).collect::<Vec<_>>());
                    }
                }
                if let Some(prep) = prep_opt {
                    if let Ok(Ok(())) = guard(|| prep.fin.commit(db)) {
                        rep.fail(
                            "C14",
                            &format!("commit-accepted-after-failure:{site_name}"),
                            format!("{ctx}: a later commit was accepted by the failed handle"),
                        );
                    }
                }
            }
        }
        let dbg2 = if std::env::var("NV_KEEP_FAILED").is_ok() { crate::sut::dir_summary(&work) } else { String::new() };
        sut.db = None;
        let dbg3 = if std::env::var("NV_KEEP_FAILED").is_ok() { crate::sut::dir_summary(&work) } else { String::new() };
        let ctx = format!("{ctx} BEFORE-DROP[{dbg2}] AFTER-DROP[{dbg3}]");
        if rep.diverged {
            return;
        }
        // reopen without faults: exactly pre or post
        check_image(rep, rng, "C14", &work, cfg, &r.pre, &r.post, if res.is_ok() { Req::Post } else { Req::Either }, &r.keys, &format!("{ctx} -> reopened"), false);
        rep.feat("injections_done", 1);
        let _ = std::fs::remove_dir_all(&work);
    }
}

//! Per-property check registry: engine, level, bounds, rule text.

#[derive(Clone, Copy, Debug, PartialEq, Eq)]
pub enum Engine {
    EModel,
    /// E-MODEL history x configuration matrix
    EModelMatrix,
    /// pure proof monitors (no database)
    EProof,
    /// recorded I/O: crash / power-loss images, injection, trace monitors
    EIo,
    /// directory lock races
    ELock,
    /// concurrent sessions / committers
    EConc,
}

pub struct Check {
    pub id: &'static str,
    pub engine: Engine,
    pub level: &'static str,
    pub quick_cases: u64,
    pub thorough_cases: u64,
    /// stop *generating new cases* after this many seconds (never a verdict)
    pub quick_budget_s: u64,
    pub thorough_budget_s: u64,
    pub rule: &'static str,
    pub assumptions: &'static [&'static str],
}

const A_MODEL: &[&str] = &[
    "the reference model (BTreeMap semantics + reference trie hashed with the raw blake3/sha2 crates) is the specification",
    "collision resistance of blake3/sha2",
    "only executions produced by the seeded workload are covered; no claim beyond them",
];

pub fn checks() -> Vec<Check> {
    vec![
        Check {
            id: "C01",
            engine: Engine::EModel,
            level: "exploration",
            quick_cases: 128,
            thorough_cases: 1600,
            quick_budget_s: 50,
            thorough_budget_s: 900,
            rule: "case = one read-back comparison (Nomt::read or Session::read of one key vs the model) after a commit of a seeded history; \
                   non-trivial when the commit that preceded it wrote >=2 keys and (touched an existing key, or wrote a value >1332 bytes (overflow), or the store holds >200 keys); \
                   distinct = distinct (case seed, op index, evaluation ordinal)",
            assumptions: A_MODEL,
        },
        Check {
            id: "C02",
            engine: Engine::EModel,
            level: "exploration",
            quick_cases: 320,
            thorough_cases: 1600,
            quick_budget_s: 50,
            thorough_budget_s: 900,
            rule: "case = one comparison of FinishedSession::root / Nomt::root / Session::prev_root with the from-scratch reference root of the model's full key set; \
                   non-trivial when the store held or holds >=2 keys (an internal node exists); distinct = distinct (case seed, op index, ordinal)",
            assumptions: A_MODEL,
        },
        Check {
            id: "C05",
            engine: Engine::EModel,
            level: "exploration",
            quick_cases: 320,
            thorough_cases: 1600,
            quick_budget_s: 50,
            thorough_budget_s: 900,
            rule: "case = one Session::prove(key) + verify + confirm_value/confirm_nonexistence against the model; \
                   non-trivial when the proof has >=7 siblings (crosses a page boundary), or was made through an overlay chain, or right after reopen (cold cache)",
            assumptions: A_MODEL,
        },
        Check {
            id: "C06",
            engine: Engine::EModel,
            level: "exploration",
            quick_cases: 256,
            thorough_cases: 1600,
            quick_budget_s: 50,
            thorough_budget_s: 900,
            rule: "case = one witnessed commit (all witnessed paths verified, every read/write attested, verify_update == new root) plus one evaluation per witnessed read/write; \
                   non-trivial when the witness has >=2 paths and (>=2 commit workers, or a delete, or several written keys under one terminal)",
            assumptions: A_MODEL,
        },
        Check {
            id: "C09",
            engine: Engine::EModel,
            level: "exploration",
            quick_cases: 384,
            thorough_cases: 3000,
            quick_budget_s: 50,
            thorough_budget_s: 900,
            rule: "case = one Nomt::rollback(n) call (or reopen with a non-empty rollback log) compared with the model's snapshot stack; \
                   non-trivial when small rollback segments are in use (hook H2), or n>1, or the log was at its length limit (pruning happened)",
            assumptions: A_MODEL,
        },
        Check {
            id: "C10",
            engine: Engine::EModel,
            level: "exploration",
            quick_cases: 256,
            thorough_cases: 1600,
            quick_budget_s: 50,
            thorough_budget_s: 900,
            rule: "case = one drop + Nomt::open (root, sync_seqn, occupancy, 64 values, 24 proofs compared with the values observed before the drop), one evaluation per comparison; \
                   non-trivial when the post-open configuration differs from the pre-close one and the store is non-empty",
            assumptions: A_MODEL,
        },
        Check {
            id: "C11",
            engine: Engine::EModel,
            level: "exploration",
            quick_cases: 384,
            thorough_cases: 3000,
            quick_budget_s: 50,
            thorough_budget_s: 900,
            rule: "case = one overlay-tree step (create on a chain, session on a chain, commit valid/invalid, drop, bad chain) and each read/root/proof comparison inside it; \
                   non-trivial when chain depth >=2 or a fork/drop/refused commit/bad chain is involved",
            assumptions: A_MODEL,
        },
        Check {
            id: "C12",
            engine: Engine::EModel,
            level: "exploration",
            quick_cases: 384,
            thorough_cases: 4000,
            quick_budget_s: 50,
            thorough_budget_s: 900,
            rule: "case = one commit attempt inside a contest of 2-4 changesets prepared on the same base (blocking / non-blocking, session / overlay, optional live reader, optional rollback in between), \
                   followed at the end of the history by a rollback(1) ladder down the whole retained log; non-trivial when rollback is enabled and the competitor wrote a key another competitor also wrote, or the attempt was expected to be rejected",
            assumptions: A_MODEL,
        },
        Check {
            id: "C13",
            engine: Engine::EModelMatrix,
            level: "exploration",
            quick_cases: 96,
            thorough_cases: 2400,
            quick_budget_s: 55,
            thorough_budget_s: 1200,
            rule: "case = one (history, configuration) run: the same seeded history executed under 6 (quick) / 24 (thorough) sampled configurations (commit_concurrency 1..64, warm_up, cache sizes 1..256 MiB, leaf cache 0..256, io_workers, buckets/seed, upper levels 0..2, prepopulate, blake3/sha2, different warm-up/preserve hints); \
                   every run is compared with the same model, so results are identical across configurations; non-trivial when commit_concurrency >= 2 or a cache is at its minimum",
            assumptions: A_MODEL,
        },
        Check {
            id: "C03",
            engine: Engine::EIo,
            level: "fault_enumeration",
            quick_cases: 32,
            thorough_cases: 640,
            quick_budget_s: 55,
            thorough_budget_s: 1500,
            rule: "case = one process-crash image: (recorded commit/overlay commit/rollback, log position k between any two hook events, choice for operations in flight: dropped / applied / random), built by the shadow disk from the event log, opened with the real code and compared (meta seqn, root, values, proofs, on-disk decode, one further commit and rollback) with exactly the pre- or the post-state; required state: pre before the meta write starts, post after it completed. Plus nested images (crash inside the recorded recovery of an image) and real `_exit` kills at event k in a forked child as cross-validation of the shadow model;                    non-trivial when k lies strictly inside the operation (after its first write, before its end); distinct = distinct (case, op, k, policy)",
            assumptions: A_IO,
        },
        Check {
            id: "C04",
            engine: Engine::EIo,
            level: "fault_enumeration",
            quick_cases: 32,
            thorough_cases: 640,
            quick_budget_s: 55,
            thorough_budget_s: 1500,
            rule: "case = (a) one durability-order evaluation of a recorded operation's event log (everything the new state needs is completed and fsync-covered before the meta write starts; nothing on ht volatile when the WAL is truncated; success implies a completed meta fsync), and (b) one power-loss image: (operation, log position k, loss choice among lose-all / keep-all / lose one page / keep one page / torn last multi-page write / random subsets with prefix semantics for size-changing operations), opened and compared like C03 with required state = post once the meta fsync completed;                    non-trivial when the volatile set at k is non-empty and the choice drops something",
            assumptions: A_IO,
        },
        Check {
            id: "C14",
            engine: Engine::EIo,
            level: "fault_enumeration",
            quick_cases: 64,
            thorough_cases: 640,
            quick_budget_s: 55,
            thorough_budget_s: 1500,
            rule: "case = one injection: the operation is re-run on a copy of its base image with EIO injected (once, or persistently from then on) at mutating event k (write, append, resize, fsync, directory fsync, io_uring page write); the call must return Err, is_poisoned() must be true, a further commit must be refused, and the directory reopened without faults must be exactly the pre- or post-state;                    non-trivial when k is not the first event of the operation; hangs are detected by the runner's stall watchdog (two gdb samples)",
            assumptions: A_IO,
        },
        Check {
            id: "C17",
            engine: Engine::EIo,
            level: "exploration",
            quick_cases: 384,
            thorough_cases: 2400,
            quick_budget_s: 55,
            thorough_budget_s: 1200,
            rule: "case = one recorded sync: every write/resize/unlink event issued before the meta fsync completed is joined with the decoded pre-sync image (live ln/bbn pages, both free-list chains' own pages, full ht buckets and all occupancy-map pages, live rollback records) and must only touch pages that were free or beyond the frontier, the WAL, or space after the live end of a segment;                    non-trivial when the pre-sync image has a non-empty free list (so allocation order matters)",
            assumptions: A_IO,
        },
        Check {
            id: "C20",
            engine: Engine::ELock,
            level: "exploration",
            quick_cases: 480,
            thorough_cases: 8000,
            quick_budget_s: 55,
            thorough_budget_s: 1200,
            rule: "case = one lock scenario: 2-12 threads racing Nomt::open behind a barrier against a live holder (all must fail, SHA of every file unchanged, holder still commits); open/creation races without holder (exactly one winner while it lives); 2-8 child processes plus a thread racing (alive intervals from one monotonic clock must not overlap); holder ended by drop / SIGKILL / _exit without drop / panic unwinding / failed (poisoning) commit, followed by an immediate open; recorder and file hashes silent after drop(nomt) returned; one evaluation per opener/assertion;                    non-trivial when >=2 openers overlapped in time or the holder ended abnormally",
            assumptions: A_LOCK,
        },
        Check {
            id: "C15",
            engine: Engine::EConc,
            level: "exploration",
            quick_cases: 384,
            thorough_cases: 2400,
            quick_budget_s: 55,
            thorough_budget_s: 1500,
            rule: "case = one concurrent history (1-4 reader threads with sessions read from two threads each, 1-3 writer threads using blocking / non-blocking session and overlay commits, optional rollbacks, 0.2-2.5 s, random delays at I/O completions and yield points) logged at the client boundary with one global tick; offline oracle: one version per session, proofs consistent with the session's root and reads, no successful write inside a live session, deferral only with a contender, winners form a base->version chain, final values/root/sync_seqn equal the fold of the winners, session version current during its begin interval; plus one evaluation per session / deferral;                    non-trivial when a successful write overlaps a session interval and at least one attempt was rejected or deferred; distinct = distinct interleaving signature (hash of the order of (thread, call/return) events)",
            assumptions: A_CONC,
        },
        Check {
            id: "C16",
            engine: Engine::EModel,
            level: "exploration",
            quick_cases: 96,
            thorough_cases: 1600,
            quick_budget_s: 50,
            thorough_budget_s: 900,
            rule: "case = one decode of the whole directory (meta, bbn, ln incl. overflow chains and both free lists, ht meta bytes and every full bucket's page) by the independent decoder at a quiescent point (after each commit / rollback / reopen), compared with the model's key-value set and, node by node, with the reference trie;                    non-trivial when the image has >=2 branch nodes, or an overflow chain, or a tombstone, or an elided child page; distinct = distinct (case seed, op index)",
            assumptions: A_DECODE,
        },
        Check {
            id: "C19",
            engine: Engine::EModel,
            level: "exploration",
            quick_cases: 64,
            thorough_cases: 1600,
            quick_budget_s: 50,
            thorough_budget_s: 900,
            rule: "case = one page-accounting evaluation of a decoded image (every page below the ln/bbn frontier is live, a free-list item or a free-list page; occupied == full buckets on disk == distinct stored pages; zero on an empty store), plus one evaluation per 8-12-cycle fill/overwrite/empty run (frontier after the empty phase of cycles 6.. must not exceed the maximum of cycles 2-5);                    non-trivial when the image has a non-empty free list (pages were freed or reused)",
            assumptions: A_DECODE,
        },
        Check {
            id: "C07",
            engine: Engine::EProof,
            level: "exploration",
            quick_cases: 480,
            thorough_cases: 24000,
            quick_budget_s: 50,
            thorough_budget_s: 900,
            rule: "case = one (trie T, subset S of its terminals, in-scope sorted write set W): honest path proofs from the reference prover are aggregated, the multi-proof must verify, every confirm_*/find_index query must answer like the path proof, and verify_multi_proof_update(W) == verify_update(W) == reference root of T+W; plus one evaluation per query;                    non-trivial when >=3 paths are aggregated and W is non-empty; distinct = distinct (case seed, round, ordinal)",
            assumptions: A_PROOF,
        },
        Check {
            id: "C08",
            engine: Engine::EProof,
            level: "exploration",
            quick_cases: 4000,
            thorough_cases: 160000,
            quick_budget_s: 50,
            thorough_budget_s: 900,
            rule: "case = one adversarial object (single- or double-field mutant of an honest path proof or multi-proof: sibling flip/replace/swap/drop/duplicate/extend/splice, terminal key/value/kind/depth changes, internal-node-as-leaf splice, depth +-1, path reorder/drop/duplicate, deeper relabelling, terminator over an existing key) verified against the true root; if it verifies, every confirm_value/confirm_nonexistence answer on the queried key, all set keys in scope and random keys, and every update root, is compared with the truth table of the key set;                    non-trivial when the object differs from the honest proof it was derived from; distinct by a hash of the object's canonical debug form",
            assumptions: A_PROOF,
        },
        Check {
            id: "C18",
            engine: Engine::EProof,
            level: "exploration",
            quick_cases: 4000,
            thorough_cases: 160000,
            quick_budget_s: 50,
            thorough_budget_s: 900,
            rule: "case = one object (random or mutated PathProof / MultiProof with depths and sibling counts 0..300, unsorted/duplicate/prefix-related paths, key slices of odd length) fed to PathProof::verify, verify_multi_proof, and - when it verifies against the root it folds to - to confirm_*, confirm_*_with_index (in-range indices), find_index_for, verify_update and verify_multi_proof_update with hostile op lists; any panic is a violation;                    non-trivial when the object passes the verifier's first length/ordering check (so deeper code necessarily ran); distinct by a hash of the object; thorough additionally runs the same generator under Miri (UB = violation)",
            assumptions: A_PROOF,
        },
    ]
}

const A_CONC: &[&str] = &[
    "schedules are sampled by real threads plus injected delays, not enumerated; the history is recorded at the API boundary (call before, return after)",
    "bounded progress is decided by the runner's stall watchdog (two gdb stack samples 5 s apart), never by a wall-clock deadline alone",
];

const A_LOCK: &[&str] = &[
    "timings of racing openers are sampled (barrier start, jittered hold times), not enumerated",
    "the documented TOCTOU of Store::open (an opener that decided to create before another opener created AND dropped the store) is outside the statement (no live handle) and is not generated",
];

const A_IO: &[&str] = &[
    "the cfg-guarded I/O hook reports every mutating file operation of an existing store (recorder completeness is cross-checked by real _exit kills)",
    "fault model = the quantifier text: fsync makes durable what completed before it started; unsynced in-place page writes are lost independently; unsynced size-changing operations keep a prefix; no reordering inside a completed fsync, no bit rot",
    "boundaries and loss subsets are sampled (all sync-point neighbourhoods + random), not exhaustively enumerated",
];

const A_DECODE: &[&str] = &[
    "the decoder re-implements the file formats from their layout comments; PageId::decode/encode and the xxh3 seed rule are taken from nomt_core/twox-hash (trusted)",
    "images are decoded at quiescent points only (after a commit/rollback/open has returned)",
    "the reference model and reference trie are the specification of the abstract state",
];

const A_PROOF: &[&str] = &[
    "truth = the key/value-hash set itself; honest proofs come from the harness's reference trie (raw blake3/sha2)",
    "collision resistance of blake3/sha2 (a toy hasher is used only for totality under Miri)",
    "adversarial objects are sampled from the listed mutation operators, not enumerated",
];

pub fn find(id: &str) -> Option<Check> {
    checks().into_iter().find(|c| c.id == id)
}

#!/bin/bash
# usage: tools_run_all.sh <tier> <seed> [ids...]   - runs the checks one after the other and prints one summary line each
tier=$1; seed=$2; shift 2
ids="$@"; [ -z "$ids" ] && ids="C01 C02 C03 C04 C05 C06 C07 C08 C09 C10 C11 C12 C13 C14 C15 C16 C17 C18 C19 C20"
mkdir -p /verif/out/runall
for id in $ids; do
  t0=$(date +%s)
  VERIF_SEED=$seed /verif/check $id --tier $tier > /verif/out/runall/$id-$tier-$seed.out 2>&1; rc=$?
  t1=$(date +%s)
  echo "$id tier=$tier seed=$seed rc=$rc wall=$((t1-t0))s :: $(grep -c '^VIOLATION' /verif/out/runall/$id-$tier-$seed.out) violation lines :: $(tail -1 /verif/out/runall/$id-$tier-$seed.out | cut -c1-160)"
done

#!/bin/bash
# usage: tools_try_seed.sh <patch.diff> <check-id> [tier...]   -- applies a seeded change to /repo, runs checks, reverts.
P="$1"; ID="$2"; shift 2
TIERS="${@:-quick thorough}"
cd /repo || exit 2
if ! git diff --quiet; then echo "REPO DIRTY"; exit 2; fi
if ! git apply --3way "$P" 2>/tmp/apply.err && ! git apply "$P" 2>>/tmp/apply.err; then echo "APPLY-FAILED $(head -3 /tmp/apply.err)"; git reset -q --hard HEAD; exit 3; fi
cd /verif
RES="missed"
for t in $TIERS; do
  out=$(timeout 3000 ./check $ID --tier $t 2>&1)
  rc=$?
  line=$(echo "$out" | grep -m1 "finding:" | cut -c1-220)
  summ=$(echo "$out" | tail -1 | cut -c1-200)
  if [ $rc -eq 1 ]; then RES="CAUGHT tier=$t :: $line"; break; fi
  if [ $rc -ne 0 ]; then RES="rc=$rc tier=$t :: $summ"; fi
  echo "   [$t] rc=$rc $summ"
done
echo "$ID $(basename $(dirname $P)) => $RES"
cd /repo && git reset -q --hard HEAD && git status --short | grep -v '^??' | head -3
